(* C11: an instance has an entry for every inverse attribute it declares or inherits - from a parent, a
   grandparent, a second supertype, at any height - and for nothing else. *)
From Coq Require Import List NArith Bool.
From SC Require Import SuperIter.
Import ListNotations.
Local Open Scope N_scope.

Lemma above_incl G q q' a : above G q a -> incl q q' -> above G q' a.
Proof.
  intros H. revert q'. induction H as [q a Hin|q x a Hx Ha IH]; intros q' Hq.
  - apply above_here. exact (Hq _ Hin).
  - apply (above_step G q' x a); [exact (Hq _ Hx)|exact Ha].
Qed.

(* completeness: the attributes of every entity in or above the queue are yielded *)
Lemma inherited_complete G fuel : forall q l, inherited fuel G q = Some l ->
  forall a i, above G q a -> In i (invs G a) -> In i l.
Proof.
  induction fuel as [|f IH]; intros q l H a i Ha Hi; [discriminate H|].
  cbn [inherited] in H. destruct q as [|c r].
  - exfalso. clear H Hi. remember [] as q0 eqn:E. induction Ha as [q a Hin|q x a Hx _ _]; subst; contradiction.
  - destruct (inherited f G (r ++ supers G c)) as [l'|] eqn:E; [|discriminate H]. inversion H; subst l. clear H.
    apply in_or_app.
    assert (Hcases : a = c \/ above G (r ++ supers G c) a).
    { clear Hi IH E. remember (c :: r) as q0 eqn:Eq. destruct Ha as [q a Hin|q x a Hx Hup]; subst q.
      - destruct Hin as [->|Hin]; [left; reflexivity|right; apply above_here, in_or_app; left; exact Hin].
      - right. destruct Hx as [->|Hx].
        + apply (above_incl G (supers G x)); [exact Hup|apply incl_appr, incl_refl].
        + apply (above_step G _ x a); [apply in_or_app; left; exact Hx|exact Hup]. }
    destruct Hcases as [->|Hab]; [left; exact Hi|right; exact (IH _ _ E a i Hab Hi)].
Qed.

(* soundness: nothing else is yielded *)
Lemma inherited_sound G fuel : forall q l, inherited fuel G q = Some l ->
  forall i, In i l -> exists a, above G q a /\ In i (invs G a).
Proof.
  induction fuel as [|f IH]; intros q l H i Hi; [discriminate H|].
  cbn [inherited] in H. destruct q as [|c r]; [inversion H; subst; contradiction|].
  destruct (inherited f G (r ++ supers G c)) as [l'|] eqn:E; [|discriminate H]. inversion H; subst l. clear H.
  apply in_app_or in Hi. destruct Hi as [Hi|Hi].
  - exists c. split; [apply above_here; left; reflexivity|exact Hi].
  - destruct (IH _ _ E i Hi) as [a [Ha Hia]]. exists a. split; [|exact Hia].
    clear Hia E. remember (r ++ supers G c) as q0 eqn:Eq. revert Eq.
    induction Ha as [q a Hin|q x a Hx Hup _]; intros Eq; subst q.
    + apply in_app_or in Hin. destruct Hin as [Hin|Hin].
      * apply above_here. right. exact Hin.
      * apply (above_step G _ c a); [left; reflexivity|apply above_here; exact Hin].
    + apply in_app_or in Hx. destruct Hx as [Hx|Hx].
      * apply (above_step G _ x a); [right; exact Hx|exact Hup].
      * apply (above_step G _ c a); [left; reflexivity|apply (above_step G _ x a); [exact Hx|exact Hup]].
Qed.

Theorem init_iattrs_exact G fuel e l : init_iattrs fuel G e = Some l ->
  forall i, In i l <-> (In i (invs G e) \/ exists a, above G (supers G e) a /\ In i (invs G a)).
Proof.
  unfold init_iattrs. destruct (inherited fuel G (supers G e)) as [l'|] eqn:E; [|discriminate].
  intros H. inversion H; subst l. clear H. intros i. split.
  - intros Hi. apply in_app_or in Hi. destruct Hi as [Hi|Hi]; [left; exact Hi|right; exact (inherited_sound G fuel _ _ E i Hi)].
  - intros [Hi|[a [Ha Hi]]]; apply in_or_app; [left; exact Hi|right; exact (inherited_complete G fuel _ _ E a i Ha Hi)].
Qed.
