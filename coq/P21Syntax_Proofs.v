(* Proofs about the token-level parameter syntax, integer writer and string scanner. *)
From Coq Require Import List ZArith Bool NArith Lia Arith.
From SC Require Import P21Lex P21Lex_Proofs P21Syntax.
Import ListNotations.
Local Open Scope Z_scope.

(* ---------- induction principle for the nested type ---------- *)
Section ParamInd.
  Variable P : param -> Prop.
  Hypothesis Hnull : P PNull.
  Hypothesis Hstar : P PStar.
  Hypothesis Hint : forall z, P (PInt z).
  Hypothesis Hreal : forall t, P (PReal t).
  Hypothesis Hstr : forall s, P (PStr s).
  Hypothesis Hbin : forall b, P (PBin b).
  Hypothesis Henum : forall e, P (PEnum e).
  Hypothesis Href : forall n, P (PRef n).
  Hypothesis Htyped : forall k q, P q -> P (PTyped k q).
  Hypothesis Hlist : forall l, Forall P l -> P (PList l).

  Fixpoint param_ind' (p : param) : P p :=
    match p with
    | PNull => Hnull | PStar => Hstar | PInt z => Hint z | PReal t => Hreal t | PStr s => Hstr s
    | PBin b => Hbin b | PEnum e => Henum e | PRef n => Href n
    | PTyped k q => Htyped k q (param_ind' q)
    | PList l => Hlist l ((fix go (l : list param) : Forall P l :=
                             match l with
                             | [] => Forall_nil P
                             | x :: r => Forall_cons x (param_ind' x) (go r)
                             end) l)
    end.
End ParamInd.

Lemma print_list_eq l : print_param (PList l) = TLp :: print_items l ++ [TRp].
Proof.
  reflexivity.
Qed.

Fixpoint lsize (l : list param) : nat := match l with [] => O | x :: r => S (psize x + lsize r) end.
Lemma psize_list l : psize (PList l) = S (lsize l).
Proof. reflexivity. Qed.
Lemma psize_pos p : (1 <= psize p)%nat.
Proof. destruct p; cbn; lia. Qed.

(* the first token of a printed parameter *)
Definition starts_value (ts : list tok) : Prop :=
  match ts with
  | TRp :: _ => False | TComma :: _ => False | [] => False
  | _ => True
  end.
Lemma print_starts p r : starts_value (print_param p ++ r).
Proof. destruct p; cbn; exact I. Qed.

(* The anonymous fix and [items] are convertible; we avoid reasoning about the
   anonymous one by proving the round trip directly with a strengthened IH. *)

Lemma parse_print_gen :
  forall fuel,
    (forall p rest, (psize p <= fuel)%nat -> parse_param fuel (print_param p ++ rest) = Some (p, rest)).
Proof.
  induction fuel as [|f IH]; intros p rest Hs.
  - pose proof (psize_pos p). lia.
  - destruct p as [| |z|t|s|b|e|n|k q|l]; try reflexivity.
    + (* typed *)
      cbn [print_param app]. cbn [parse_param].
      rewrite <- app_assoc. rewrite IH by (cbn in Hs; lia). reflexivity.
    + (* list *)
      rewrite print_list_eq. rewrite psize_list in Hs.
      destruct l as [|x l'].
      * reflexivity.
      * cbn [app]. 
        assert (Hst := print_starts x (match l' with [] => [] | _ => TComma :: print_items l' end ++ [TRp] ++ rest)).
        (* generic statement about the inner loop *)
        assert (Hloop : forall g (l : list param) , l <> [] -> (lsize l <= f)%nat -> (length l <= g)%nat ->
                  (fix items (g : nat) (ts : list tok) {struct g} : option (list param * list tok) :=
                     match g with
                     | O => None
                     | S g' =>
                         match parse_param f ts with
                         | Some (q, TComma :: r1) =>
                             match items g' r1 with
                             | Some (l0, r2) => Some (q :: l0, r2)
                             | None => None
                             end
                         | Some (q, TRp :: r1) => Some ([q], r1)
                         | _ => None
                         end
                     end) g (print_items l ++ TRp :: rest) = Some (l, rest)).
        { induction g as [|g IHg]; intros l Hne Hsz Hlen.
          - destruct l; [congruence|cbn in Hlen; lia].
          - destruct l as [|y l2]; [congruence|].
            destruct l2 as [|y2 l3].
            + cbn [print_items]. rewrite IH by (cbn in Hsz; lia). reflexivity.
            + change (print_items (y :: y2 :: l3)) with (print_param y ++ TComma :: print_items (y2 :: l3)).
              rewrite <- app_assoc. cbn [app].
              rewrite IH by (cbn in Hsz; lia).
              rewrite IHg; [reflexivity|discriminate|cbn in Hsz |- *; lia|cbn in Hlen |- *; lia]. }
        specialize (Hloop f (x :: l') ltac:(discriminate)).
        assert (Hlen : (length (x :: l') <= f)%nat).
        { clear -Hs. assert (forall l, (length l <= lsize l)%nat) as H.
          { induction l as [|a r IHl]; cbn; [lia|]. pose proof (psize_pos a). lia. }
          specialize (H (x :: l')). lia. }
        specialize (Hloop ltac:(lia) Hlen).
        rewrite <- app_assoc. cbn [app].
        remember (print_items (x :: l') ++ TRp :: rest) as ts eqn:Ets.
        assert (Hts : starts_value ts).
        { subst ts. destruct l'; cbn [print_items]; [apply print_starts|rewrite <- app_assoc; apply print_starts]. }
        cbn [parse_param].
        destruct ts as [|t0 ts']; [contradiction|].
        destruct t0; try contradiction; rewrite Hloop; reflexivity.
Qed.

Lemma parse_print p rest : parse_param (psize p) (print_param p ++ rest) = Some (p, rest).
Proof. apply parse_print_gen. lia. Qed.

(* ---------- integer writer ---------- *)
Lemma digits_val_app l1 l2 a : digits_val (l1 ++ l2) a = digits_val l2 (digits_val l1 a).
Proof. revert a. induction l1 as [|c r IH]; intros a; cbn; [reflexivity|apply IH]. Qed.

Lemma pos_digits_acc f n acc : pos_digits f n acc = pos_digits f n [] ++ acc.
Proof.
  revert n acc. induction f as [|f IH]; intros n acc; cbn; [reflexivity|].
  destruct (n <? 10); [reflexivity|].
  rewrite IH. rewrite (IH (n / 10) [_]). rewrite <- app_assoc. reflexivity.
Qed.

Lemma digit_byte d : 0 <= d < 10 -> is_digit (Z.to_N d + 48)%N = true /\ Z.of_N (Z.to_N d + 48) - 48 = d.
Proof.
  intros H. unfold is_digit. split.
  - apply andb_true_intro. split; apply N.leb_le; lia.
  - lia.
Qed.

Lemma pos_digits_val f n : 0 <= n < 10 ^ Z.of_nat f -> digits_val (pos_digits f n []) 0 = n /\ digits_of (pos_digits f n []).
Proof.
  revert n. induction f as [|f IH]; intros n H.
  - cbn in H. assert (n = 0) by lia. subst. cbn. split; [reflexivity|intros c []].
  - cbn [pos_digits]. destruct (n <? 10) eqn:E.
    + apply Z.ltb_lt in E. destruct (digit_byte n ltac:(lia)) as [H1 H2]. cbn. split; [lia|].
      intros c [Hc|[]]. subst. exact H1.
    + apply Z.ltb_ge in E. rewrite pos_digits_acc.
      assert (Hq : 0 <= n / 10 < 10 ^ Z.of_nat f).
      { rewrite Nat2Z.inj_succ, Z.pow_succ_r in H by lia. split; [apply Z.div_pos; lia|].
        apply Z.div_lt_upper_bound; lia. }
      destruct (IH (n / 10) Hq) as [Hv Hd].
      destruct (digit_byte (n mod 10) ltac:(apply Z.mod_pos_bound; lia)) as [H1 H2].
      split.
      * rewrite digits_val_app, Hv. cbn. rewrite H2. pose proof (Z.div_mod n 10 ltac:(lia)). lia.
      * intros c Hc. apply in_app_or in Hc. destruct Hc as [Hc|[Hc|[]]]; [apply Hd; exact Hc|subst; exact H1].
Qed.

Lemma write_nat_val n : 0 <= n -> digits_val (write_nat n) 0 = n /\ digits_of (write_nat n) /\ write_nat n <> [].
Proof.
  intros H. unfold write_nat.
  assert (Hb : 0 <= n < 10 ^ Z.of_nat (S (Z.to_nat (Z.log2 n)))).
  { split; [exact H|]. destruct (Z.eq_dec n 0) as [->|Hn]; [cbn; lia|].
    rewrite Nat2Z.inj_succ, Z2Nat.id by apply Z.log2_nonneg.
    pose proof (Z.log2_spec n ltac:(lia)) as [_ Hl].
    eapply Z.lt_le_trans; [exact Hl|]. apply Z.pow_le_mono_l. pose proof (Z.log2_nonneg n). lia. }
  destruct (pos_digits_val _ n Hb) as [Hv Hd]. split; [exact Hv|]. split; [exact Hd|].
  cbn [pos_digits]. destruct (n <? 10); [discriminate|]. rewrite pos_digits_acc. intro Hc.
  apply app_eq_nil in Hc. destruct Hc as [_ Hc]. discriminate.
Qed.

(* the written integer, followed by a delimiter, reads back to the same value *)
Lemma write_read_int z d r sev :
  in_delims DELIMS d = true -> LONG_MIN <= z <= LONG_MAX ->
  read_integer (of_bytes (write_int z ++ d :: r)) sev (Some DELIMS) = (Some z, sev, mkS (d :: r) false false).
Proof.
  intros Hd Hr. unfold write_int. destruct (z <? 0) eqn:E.
  - apply Z.ltb_lt in E. destruct (write_nat_val (- z) ltac:(lia)) as [Hv [Hds Hne]].
    pose proof (read_integer_accepts (Some true) (write_nat (- z)) [] d r sev Hd Hds Hne eq_refl) as H.
    cbn zeta in H. rewrite Hv in H. replace (- - z) with z in H by lia. specialize (H Hr).
    exact H.
  - apply Z.ltb_ge in E. destruct (write_nat_val z E) as [Hv [Hds Hne]].
    pose proof (read_integer_accepts None (write_nat z) [] d r sev Hd Hds Hne eq_refl) as H.
    cbn zeta in H. rewrite Hv in H. specialize (H Hr). exact H.
Qed.

(* ---------- string literal scanner ---------- *)
Lemma ends_S_last (s : list byte) (c : byte) : c <> 92%N -> ends_S (s ++ [c]) = false.
Proof.
  intros H. unfold ends_S. rewrite rev_app_distr. cbn.
  destruct (rev s) as [|b [|c2 r]]; try reflexivity.
  destruct (N.eqb_spec c 92); [contradiction|]. reflexivity.
Qed.

Definition no_backslash (cs : list byte) : Prop := ~ In 92%N cs.

(* invariant: we are inside the literal with all delimiters so far escaped,
   and the collected text does not end in a backslash *)
Lemma lit_loop_encode (cs s : list byte) (c0 : byte) (tail : list byte) (d : byte) :
  no_backslash cs -> c0 <> 92%N -> d <> 39%N ->
  lit_loop (encode_str cs ++ 39%N :: d :: tail) (s ++ [c0]) true
  = (s ++ [c0] ++ encode_str cs ++ [39%N], d :: tail, false).
Proof.
  revert s c0. induction cs as [|c r IH]; intros s c0 Hnb Hc0 Hd.
  - cbn [encode_str app lit_loop]. change (N.eqb 39 39) with true. cbn match.
    rewrite (ends_S_last s c0 Hc0). cbn [negb].
    destruct (N.eqb_spec d 39); [contradiction|]. cbn [negb]. rewrite <- app_assoc. reflexivity.
  - assert (Hnb' : no_backslash r) by (intro Hin; apply Hnb; right; exact Hin).
    assert (Hc : c <> 92%N) by (intro; subst; apply Hnb; left; reflexivity).
    cbn [encode_str]. destruct (N.eqb_spec c 39) as [->|Hn].
    + cbn [app lit_loop]. change (N.eqb 39 39) with true. cbn match.
      rewrite (ends_S_last s c0 Hc0). cbn [negb].
      rewrite ends_S_last by discriminate. cbv iota.
      etransitivity; [apply (IH ((s ++ [c0]) ++ [39%N]) 39%N Hnb' ltac:(discriminate) Hd)|].
      rewrite <- !app_assoc. reflexivity.
    + cbn [app lit_loop]. destruct (N.eqb_spec c 39); [contradiction|]. cbn [negb].
      etransitivity; [apply (IH (s ++ [c0]) c Hnb' Hc Hd)|]. rewrite <- !app_assoc. reflexivity.
Qed.

(* A string written in exchange form (quotes doubled) and followed by anything
   that is not a quote is scanned back exactly, and the scan stops right after it. *)
Lemma get_literal_roundtrip (cs : list byte) (d : byte) (tail : list byte) :
  no_backslash cs -> d <> 39%N ->
  get_literal (39%N :: encode_str cs ++ 39%N :: d :: tail)
  = (39%N :: encode_str cs ++ [39%N], d :: tail, true).
Proof.
  intros Hnb Hd. unfold get_literal. cbn [skip_ws]. change (is_space 39%N) with false. cbn match.
  change (N.eqb 39 39) with true. cbn match.
  pose proof (lit_loop_encode cs [] 39%N tail d Hnb ltac:(discriminate) Hd) as H. cbn [app] in H.
  etransitivity; [|reflexivity]. cbn [app]. rewrite H. reflexivity.
Qed.

(* ---------- references ---------- *)
Lemma refs_shift k p : refs_of (shift_refs k p) = map (fun n => n + k) (refs_of p).
Proof.
  induction p using param_ind'; try reflexivity.
  - cbn [shift_refs refs_of]. exact IHp.
  - cbn [shift_refs]. 
    assert (forall l', (fix rl (l : list param) : list Z := match l with [] => [] | x :: r => refs_of x ++ rl r end) l'
                       = flat_map refs_of l') as Hf.
    { induction l' as [|x r IHr]; cbn; [reflexivity|]. rewrite IHr. reflexivity. }
    cbn [refs_of]. rewrite !Hf. clear Hf.
    induction H as [|x r Hx Hr IHr]; cbn; [reflexivity|].
    rewrite map_app, Hx, IHr. reflexivity.
Qed.
