(* C09 -- Part 21 literals are read to their value and written in conforming form.
   Statements only; proofs in P21Lex_Proofs.v.  The model P21Lex.v mirrors
   ReadInteger / ReadReal / ReadNumber / CheckRemainingInput / WriteReal and the
   std::istream operations they use.  All theorems quantify over ALL byte
   strings (no length bound).  DELIMS = ",)" as passed by STEPattribute::STEPread. *)
From Coq Require Import List ZArith NArith Bool.
From SC.gen Require Import SevTable Consts.
From SC Require Import P21Lex P21Lex_Proofs P21Enum P21Enum_Proofs P21Str P21Str_Proofs P21Bin P21Bin_Proofs.
Import ListNotations.
Local Open Scope Z_scope.

(* A token that could not be converted (outside the grammar, lone sign, "E5",
   "1e", integer beyond 64 bits, real beyond the double range) is never left
   unset silently: the severity is WARNING or worse. *)
Theorem c09_integer_never_silent : forall s sev ds,
  fst (fst (read_integer s sev ds)) = None -> snd (fst (read_integer s sev ds)) <= SEVERITY_WARNING.
Proof. exact read_integer_never_silent. Qed.
Print Assumptions c09_integer_never_silent.

Theorem c09_real_never_silent : forall s sev ds,
  fst (fst (read_real s sev ds)) = None -> snd (fst (read_real s sev ds)) <= SEVERITY_WARNING.
Proof. exact read_real_never_silent. Qed.
Print Assumptions c09_real_never_silent.

Theorem c09_number_never_silent : forall s sev ds,
  fst (fst (read_number s sev ds)) = None -> snd (fst (read_number s sev ds)) <= SEVERITY_WARNING.
Proof. exact read_number_never_silent. Qed.
Print Assumptions c09_number_never_silent.

(* the recovery after a bad value never runs past the end of the instance: garbage u that holds no delimiter is skipped
   up to the semicolon, the stream is left at it, and the severity is the unrecoverable one *)
Theorem c09_semicolon_stops_recovery : forall u r s sev,
  eofb s = false -> clean u -> u <> [] -> (forall c, In c u -> is_space c = false) -> rest s = u ++ 59%N :: r ->
  check_remaining s sev (Some DELIMS) = (greater sev SEVERITY_INPUT_ERROR, mkS (59%N :: r) false false).
Proof. exact semicolon_stops_recovery. Qed.
Print Assumptions c09_semicolon_stops_recovery.

(* an integer that is assigned fits a 64-bit long *)
Theorem c09_integer_in_range : forall s v s', s_read_long s = (Some v, s') -> LONG_MIN <= v <= LONG_MAX.
Proof. exact s_read_long_range. Qed.
Print Assumptions c09_integer_in_range.

(* The delimiter that follows is never consumed: for ANY text t without a
   delimiter (and without the semicolon that would end the instance: the recovery
   of CheckRemainingInput stops there, see c09_semicolon_stops_recovery; and without
   a solidus-asterisk pair: that opens a comment, which is white space whatever it holds -
   c09_comment_is_white_space and c09_unclosed_comment_reported say what happens then),
   followed by a delimiter d and anything r, each reader ends positioned exactly at
   d :: r with a usable stream.
   clean t := no byte of t is a delimiter or a semicolon /\ no_open t = true. *)
Theorem c09_integer_delimiter_kept : forall t d r sev,
  in_delims DELIMS d = true -> clean t ->
  let '(_, _, s') := read_integer (of_bytes (t ++ d :: r)) sev (Some DELIMS) in
  rest s' = d :: r /\ good s' = true.
Proof. exact read_integer_delimiter_kept. Qed.
Print Assumptions c09_integer_delimiter_kept.

Theorem c09_real_delimiter_kept : forall t d r sev,
  in_delims DELIMS d = true -> clean t ->
  let '(_, _, s') := read_real (of_bytes (t ++ d :: r)) sev (Some DELIMS) in
  rest s' = d :: r /\ good s' = true.
Proof. exact read_real_delimiter_kept. Qed.
Print Assumptions c09_real_delimiter_kept.

Theorem c09_number_delimiter_kept : forall t d r sev,
  in_delims DELIMS d = true -> clean t ->
  let '(_, _, s') := read_number (of_bytes (t ++ d :: r)) sev (Some DELIMS) in
  rest s' = d :: r /\ good s' = true.
Proof. exact read_number_delimiter_kept. Qed.
Print Assumptions c09_number_delimiter_kept.

(* Every conforming INTEGER token (optional sign, one or more digits) whose
   value fits 64 bits is read to exactly the value it denotes, with the severity
   unchanged and the stream at the delimiter - in every delimiter context: the token may be
   followed by any separator (white space characters and closed comments, in any order and
   number, none included) before the delimiter.
   sep_ok: a white space character, or a comment text without an asterisk-solidus pair;
   sep_bytes: the characters themselves, each comment text between its opening and closing pair. *)
Theorem c09_integer_accepts : forall (sign : option bool) ds its d r sev,
  in_delims DELIMS d = true -> digits_of ds -> ds <> [] -> forallb sep_ok its = true ->
  let v := digits_val ds 0 in
  let v' := match sign with Some true => - v | _ => v end in
  LONG_MIN <= v' <= LONG_MAX ->
  let sg := match sign with Some true => [45%N] | Some false => [43%N] | None => [] end in
  read_integer (of_bytes (sg ++ ds ++ sep_bytes its ++ d :: r)) sev (Some DELIMS)
  = (Some v', sev, mkS (d :: r) false false).
Proof. exact read_integer_accepts. Qed.
Print Assumptions c09_integer_accepts.

(* A comment between a value and the delimiter that follows it is white space (ISO 10303-21), for every reader
   (each of them ends in CheckRemainingInput): whatever value was read, when a separator and then a delimiter
   follow it, nothing is reported, nothing of the delimiter or beyond is consumed, and the stream is usable -
   whatever the comments hold, delimiters and semicolons included. *)
Theorem c09_comment_is_white_space : forall its d r s sev,
  forallb sep_ok its = true -> in_delims DELIMS d = true ->
  eofb s = false -> rest s = sep_bytes its ++ d :: r ->
  check_remaining s sev (Some DELIMS) = (sev, mkS (d :: r) false false).
Proof. exact check_remaining_separator. Qed.
Print Assumptions c09_comment_is_white_space.

(* a comment that is opened and never closed is never read clean: the error is the unrecoverable one *)
Theorem c09_unclosed_comment_reported : forall its body s sev,
  forallb sep_ok its = true -> has_close body = false ->
  eofb s = false -> rest s = sep_bytes its ++ 47%N :: 42%N :: body ->
  check_remaining s sev (Some DELIMS) = (greater sev SEVERITY_INPUT_ERROR, mkS [] true true).
Proof. exact check_remaining_unclosed_comment. Qed.
Print Assumptions c09_unclosed_comment_reported.

(* WriteReal: whatever text "%.15G" produced, the written token contains a
   decimal point; when the text has an exponent but no point, exactly ".E" is
   put in place of the E (nothing else changes); a plain integer text gets a
   trailing point; a text with a point is unchanged. *)
Theorem c09_write_real_point : forall rbuf, has_byte 46%N (write_real_text rbuf) = true.
Proof. exact write_real_has_point. Qed.
Print Assumptions c09_write_real_point.

Theorem c09_write_real_shape : forall rbuf,
  (has_byte 46%N rbuf = true -> write_real_text rbuf = rbuf) /\
  (has_byte 46%N rbuf = false -> has_byte 69%N rbuf = false -> has_byte 101%N rbuf = false ->
     write_real_text rbuf = rbuf ++ [46%N]) /\
  (has_byte 46%N rbuf = false -> has_byte 69%N rbuf = true ->
     exists m e, rbuf = m ++ 69%N :: e /\ write_real_text rbuf = m ++ [46%N; 69%N] ++ e /\ has_byte 69%N m = false).
Proof.
  intros rbuf. split; [apply write_real_keeps|]. split; [apply write_real_plain|apply write_real_only_inserts].
Qed.
Print Assumptions c09_write_real_shape.

(* ENUMERATION / BOOLEAN / LOGICAL (sdaiEnum.cc ReadEnum): for every table, search bound and word,
   a value is produced only when the word read, upper-cased, is the table entry of that value,
   the entry lies in the searched part and is not the entry naming the unset state. *)
Theorem c09_enum_value_is_spelled : forall elems nsearch null_index w j,
  lookup elems nsearch null_index w = Some j ->
  nth_error elems (Z.to_nat j) = Some (map upc w) /\ 0 <= j < Z.of_nat nsearch /\ null_index <> Some j.
Proof. exact read_value_is_spelled. Qed.
Print Assumptions c09_enum_value_is_spelled.

Theorem c09_logical_unset_is_no_literal : forall w,
  map upc w = str [85; 78; 83; 69; 84] -> lookup LOGICAL_TABLE 4 (Some 2) w = None.
Proof. exact logical_unset_is_no_literal. Qed.
Print Assumptions c09_logical_unset_is_no_literal.

(* non-vacuity / sanity on concrete tokens *)
Example c09_examples :
  (* "-12," *) read_integer (of_bytes [45;49;50;44]%N) 3 (Some DELIMS) = (Some (-12), 3, mkS [44%N] false false) /\
  (* "9999999999999999999999," overflows and is flagged *)
  snd (fst (read_integer (of_bytes (repeat 57%N 22 ++ [44%N])) 3 (Some DELIMS))) = 0 /\
  (* "E5," *) snd (fst (read_real (of_bytes [69;53;44]%N) 3 (Some DELIMS))) = 0 /\
  (* "1E+22" -> "1.E+22" *) write_real_text [49;69;43;50;50]%N = [49;46;69;43;50;50]%N /\
  (* "7 /*,*/ )x": space, comment holding a delimiter, space *)
  read_integer (of_bytes [55;32;47;42;44;42;47;32;41;120]%N) 3 (Some DELIMS) = (Some 7, 3, mkS [41;120]%N false false) /\
  forallb sep_ok [SpI 32%N; CmI [44%N]; SpI 32%N] = true /\
  sep_bytes [SpI 32%N; CmI [44%N]; SpI 32%N] = [32;47;42;44;42;47;32]%N /\
  (* "1.5/**/," and "2/*/," (the second comment is never closed) *)
  snd (read_real (of_bytes [49;46;53;47;42;42;47;44]%N) 3 (Some DELIMS)) = mkS [44%N] false false /\
  snd (fst (read_integer (of_bytes [50;47;42;47;44]%N) 3 (Some DELIMS))) = SEVERITY_INPUT_ERROR.
Proof. vm_compute. repeat split. Qed.
(* "1/2*" meets the hypothesis of the delimiter theorems *)
Example c09_clean_example : clean [49; 47; 50; 42]%N.
Proof. split; [|reflexivity]. intros c [H|[H|[H|[H|[]]]]]; subst; split; reflexivity. Qed.

(* STRING (Str.cc GetLiteralStr, sdaiString.cc STEPread): every well-formed literal -- any sequence of
   plain characters, doubled apostrophes, doubled reverse solidi, page escapes \S\c (c may be an
   apostrophe) and other escapes without apostrophe -- followed by anything but an apostrophe is read
   exactly to its closing quote with no error, and nothing of what follows is consumed; a literal that
   is never closed is reported, never accepted. *)
Theorem c09_string_literal_extent : forall its rest,
  forallb item_ok its = true -> not_apos_head rest ->
  string_read (APOS :: body its ++ APOS :: rest) = (APOS :: body its ++ [APOS], SEVERITY_NULL, rest).
Proof. exact string_read_wellformed. Qed.
Print Assumptions c09_string_literal_extent.

Theorem c09_unclosed_string_reported : forall its,
  forallb item_ok its = true -> exists s, string_read (APOS :: body its) = (s, SEVERITY_INPUT_ERROR, []).
Proof. exact unclosed_reported. Qed.
Print Assumptions c09_unclosed_string_reported.

(* non-vacuity: 'a\S\'b', and 'it''s' followed by a parenthesis *)
Example c09_string_examples :
  string_read [39; 97; 92; 83; 92; 39; 98; 39; 44]%N = ([39; 97; 92; 83; 92; 39; 98; 39]%N, SEVERITY_NULL, [44%N]) /\
  forallb item_ok [Plain 97%N; Page 39%N; Plain 98%N] = true /\
  string_read [39; 105; 116; 39; 39; 115; 39; 41]%N = ([39; 105; 116; 39; 39; 115; 39]%N, SEVERITY_NULL, [41%N]).
Proof. vm_compute. repeat split. Qed.

(* BINARY (sdaiBinary.cc ReadBinary, called by STEPread with needDelims = 1): a quote, one or more
   hexadecimal digits and a quote are read to exactly those digits (letters kept in upper case, as Part 21 spells them and as
   they are written back) without an error and nothing after
   the closing quote is consumed; digits without the opening quote are never accepted silently. *)
Theorem c09_binary_literal_read : forall ds rest,
  ds <> [] -> forallb is_xdigit ds = true ->
  read_binary (of_bytes (DQUOTE :: ds ++ DQUOTE :: rest)) SEVERITY_NULL true =
  (Some (map up_hex ds), SEVERITY_NULL, mkS rest false false).
Proof. exact binary_literal_read. Qed.
Print Assumptions c09_binary_literal_read.

Theorem c09_unquoted_binary_flagged : forall ds rest c,
  ds <> [] -> forallb is_xdigit ds = true -> is_xdigit c = false -> N.eqb c DQUOTE = false ->
  snd (fst (read_binary (of_bytes (ds ++ c :: rest)) SEVERITY_NULL true)) = SEVERITY_WARNING.
Proof. exact unquoted_binary_flagged. Qed.
Print Assumptions c09_unquoted_binary_flagged.

Theorem c09_empty_binary_flagged : forall rest c,
  is_xdigit c = false -> N.eqb c DQUOTE = false ->
  fst (read_binary (of_bytes (DQUOTE :: DQUOTE :: c :: rest)) SEVERITY_NULL true) = (None, SEVERITY_WARNING).
Proof. exact empty_binary_flagged. Qed.
Print Assumptions c09_empty_binary_flagged.

Example c09_binary_example :
  read_binary (of_bytes [34; 48; 70; 34; 44]%N) SEVERITY_NULL true = (Some [48; 70]%N, SEVERITY_NULL, mkS [44%N] false false) /\
  read_binary (of_bytes [34; 50; 97; 98; 34; 44]%N) SEVERITY_NULL true = (Some [50; 65; 66]%N, SEVERITY_NULL, mkS [44%N] false false).
Proof. vm_compute. split; reflexivity. Qed.
