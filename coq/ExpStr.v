(* C07: how exppp prints a string literal that does not fit the line (src/exppp/exppp.c
   breakLongStr / nextBreakpoint / maybeBreak): the apostrophes the scanner had reduced are
   doubled again, the text is cut into pieces that end after a BREAK_CHAR, and wherever the layout
   decides to break the literal is closed, a new line is started with "+" and a new literal is
   opened.  The layout decisions (current column, line length, indentation) are an arbitrary list of
   booleans here, so the theorems hold at every line length and position.  BREAK_CHAR and
   QUOTE_CHAR are regenerated from the source (gen/StrSplit.v).  No proofs here. *)
From Coq Require Import List NArith Bool.
From SC Require Import gen.StrSplit.
Import ListNotations.
Local Open Scope N_scope.

Definition str := list N.

(* breakLongStr(): in = instr with every apostrophe doubled *)
Definition dbl (s : str) : str := flat_map (fun c => if c =? QUOTE_CHAR then [c; c] else [c]) s.

(* what the scanner makes of the body of a literal: '' is one apostrophe, a lone one cannot occur *)
Fixpoint undbl (s : str) : option str :=
  match s with
  | [] => Some []
  | c :: r =>
    if c =? QUOTE_CHAR then
      match r with
      | c' :: r' => if c' =? QUOTE_CHAR then option_map (cons c) (undbl r') else None
      | [] => None
      end
    else option_map (cons c) (undbl r)
  end.

(* nextBreakpoint(): number of characters up to and including the next BREAK_CHAR, or to the end *)
Fixpoint next_bp (s : str) : nat :=
  match s with
  | [] => O
  | c :: r => if c =? BREAK_CHAR then 1%nat else S (next_bp r)
  end.

(* the loop of breakLongStr(): i = nextBreakpoint(iptr); print i characters; iptr += i *)
Fixpoint pieces_loop (fuel : nat) (s : str) : list str :=
  match fuel with
  | O => []
  | S f =>
    match s with
    | [] => []
    | _ => let i := next_bp s in firstn i s :: pieces_loop f (skipn i s)
    end
  end.
Definition pieces_c (s : str) : list str := pieces_loop (length s) s.

(* the same pieces by structural recursion *)
Fixpoint chunks (s : str) : list str :=
  match s with
  | [] => []
  | c :: r =>
    if c =? BREAK_CHAR then [c] :: chunks r
    else match chunks r with
         | [] => [[c]]
         | h :: t => (c :: h) :: t
         end
  end.

(* maybeBreak() for every piece after the first: true = close the literal and open a new one *)
Fixpoint emit (cur : str) (cs : list str) (ds : list bool) : list str :=
  match cs with
  | [] => [cur]
  | c :: r =>
    match ds with
    | true :: ds' => cur :: emit c r ds'
    | false :: ds' => emit (cur ++ c) r ds'
    | [] => emit (cur ++ c) r []
    end
  end.

(* the bodies of the literals exppp prints for the string value s, in order; they are joined by "+".
   A break before the first piece only starts a new line; no decisions = the short path. *)
Definition literals (s : str) (ds : list bool) : list str :=
  match pieces_c (dbl s) with
  | [] => [[]]
  | c :: r => emit c r ds
  end.

(* the decisions that explain a given list of literals, if any (used by the correspondence check) *)
Fixpoint str_eqb (a b : str) : bool :=
  match a, b with
  | [], [] => true
  | x :: a', y :: b' => (x =? y) && str_eqb a' b'
  | _, _ => false
  end.
Fixpoint explain (cur : str) (cs : list str) (lits : list str) : list bool :=
  match cs with
  | [] => []
  | c :: r =>
    match lits with
    | l :: lits' => if str_eqb cur l then true :: explain c r lits' else false :: explain (cur ++ c) r lits
    | [] => []
    end
  end.
Definition explained (s : str) (lits : list str) : bool :=
  match pieces_c (dbl s) with
  | [] => match lits with [[]] => true | _ => false end
  | c :: r =>
    (fix eqs (a b : list str) : bool :=
       match a, b with
       | [], [] => true
       | x :: a', y :: b' => str_eqb x y && eqs a' b'
       | _, _ => false
       end) (emit c r (explain c r lits)) lits
  end.
