From Coq Require Import List ZArith Bool NArith Lia.
From SC.gen Require Import SevTable.
From SC Require Import P21Lex P21Enum.
Import ListNotations.
Local Open Scope Z_scope.

Lemma bytes_eqb_eq a b : bytes_eqb a b = true -> a = b.
Proof.
  revert b. induction a as [|x a IH]; destruct b as [|y b]; cbn [bytes_eqb]; try discriminate; [reflexivity|].
  intros H. apply andb_prop in H. destruct H as [H1 H2]. apply N.eqb_eq in H1. rewrite H1, (IH b H2). reflexivity.
Qed.

(* the index found is the position of the spelled word in the table, within the searched part *)
Lemma search_sound w elems : forall n i j,
  search w elems n i = Some j ->
  i <= j /\ j < i + Z.of_nat n /\ nth_error elems (Z.to_nat (j - i)) = Some w.
Proof.
  induction elems as [|e r IH]; intros n i j; destruct n as [|n]; cbn [search]; try discriminate.
  destruct (bytes_eqb w e) eqn:E.
  - intros H. injection H as <-. apply bytes_eqb_eq in E. subst. rewrite Z.sub_diag. cbn. repeat split; lia.
  - intros H. apply IH in H. destruct H as (H1 & H2 & H3). repeat split; try lia.
    replace (Z.to_nat (j - i)) with (S (Z.to_nat (j - (i + 1)))) by lia. exact H3.
Qed.

(* whatever the input: a value is assigned only when the word read, upper-cased, is the table
   entry of that value, the entry is among those searched, and it is not the unset entry *)
Theorem read_value_is_spelled elems nsearch null_index w j :
  lookup elems nsearch null_index w = Some j ->
  nth_error elems (Z.to_nat j) = Some (map upc w) /\ 0 <= j < Z.of_nat nsearch /\ null_index <> Some j.
Proof.
  unfold lookup. destruct (search (map upc w) elems nsearch 0) as [i|] eqn:S; [|discriminate].
  apply search_sound in S. destruct S as (S1 & S2 & S3). rewrite Z.sub_0_r in S3.
  destruct null_index as [n|].
  - destruct (Z.eqb_spec i n) as [->|Ne]; [discriminate|]. intros H. injection H as <-.
    repeat split; try assumption; try lia. intros E. injection E as E. congruence.
  - intros H. injection H as <-. repeat split; try assumption; try lia. discriminate.
Qed.

(* a token that spells no literal never yields a value *)
Corollary logical_unset_is_no_literal w :
  map upc w = str [85; 78; 83; 69; 84] -> lookup LOGICAL_TABLE 4 (Some 2) w = None.
Proof. intros E. unfold lookup. rewrite E. vm_compute. reflexivity. Qed.

(* end to end on the stream model: the statement of the defect repaired by the LUnset test *)
Example unset_token_is_refused :
  let r := read_enum LOGICAL_TABLE 4 (Some 2) true (of_bytes (str [46; 85; 78; 83; 69; 84; 46; 44])) in
  e_val r = None /\ e_sev r = SEVERITY_WARNING /\ rest (e_stream r) = str [44].
Proof. vm_compute. repeat split. Qed.
Example unset_token_was_silently_null :      (* the table searched without the exclusion *)
  let r := read_enum LOGICAL_TABLE 4 None true (of_bytes (str [46; 85; 78; 83; 69; 84; 46; 44])) in
  e_val r = Some 2 /\ e_sev r = SEVERITY_NULL.
Proof. vm_compute. repeat split. Qed.
