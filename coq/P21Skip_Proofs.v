(* C01 / C03: SkipInstance ends every well-formed record at its own semicolon. *)
From Coq Require Import List ZArith Bool NArith Lia.
From SC Require Import P21Lex P21Str P21Str_Proofs P21Sep P21Sep_Proofs P21Skip.
Import ListNotations.
Local Open Scope N_scope.

Lemma skip_instance_S f l : skip_instance (S f) l =
    match skip_ws l with
    | [] => None
    | c :: r =>
      if c =? SEMI then Some r
      else if c =? APOS then
        let '(_, _, r') := string_read (c :: r) in skip_instance f r'
      else if c =? SLASH then
        match r with
        | b :: r2 => if b =? STAR then
                       match comment_end r2 with
                       | Some r3 => skip_instance f r3
                       | None => None
                       end
                     else skip_instance f r
        | [] => None
        end
      else if c =? 0 then None
      else skip_instance f r
    end.
Proof. reflexivity. Qed.

Lemma skip_ws_idem l : skip_ws (skip_ws l) = skip_ws l.
Proof.
  induction l as [|c r IH]; [reflexivity|]. cbn [skip_ws].
  destruct (is_space c) eqn:E; [exact IH|]. cbn [skip_ws]. rewrite E. reflexivity.
Qed.

(* white space in front changes nothing: operator>> skips it *)
Lemma skip_instance_ws f c l : is_space c = true -> skip_instance (S f) (c :: l) = skip_instance (S f) l.
Proof. intros H. rewrite !skip_instance_S. cbn [skip_ws]. rewrite H. reflexivity. Qed.

Lemma skip_instance_mono f : forall l x, skip_instance f l = Some x -> skip_instance (S f) l = Some x.
Proof.
  induction f as [|f IH]; intros l x H; [discriminate|].
  rewrite skip_instance_S in H. rewrite skip_instance_S.
  destruct (skip_ws l) as [|c r]; [discriminate|].
  destruct (c =? SEMI); [exact H|].
  destruct (c =? APOS).
  { destruct (string_read (c :: r)) as [[s v] r']. apply IH. exact H. }
  destruct (c =? SLASH).
  { destruct r as [|b r2]; [discriminate|]. destruct (b =? STAR).
    - destruct (comment_end r2) as [r3|]; [|discriminate]. apply IH. exact H.
    - apply IH. exact H. }
  destruct (c =? 0); [discriminate|]. apply IH. exact H.
Qed.

Lemma skip_instance_le f f' l x : (f <= f')%nat -> skip_instance f l = Some x -> skip_instance f' l = Some x.
Proof. intros Hle H. induction Hle as [|m _ IH]; [exact H|]. apply skip_instance_mono. exact IH. Qed.

Lemma schr_ok_tests c : schr_ok c = true -> (c =? SEMI) = false /\ (c =? APOS) = false /\ (c =? SLASH) = false /\ (c =? 0) = false.
Proof.
  unfold schr_ok. intros H. repeat (apply andb_true_iff in H; destruct H as [H ?]).
  repeat match goal with X : negb _ = true |- _ => apply negb_true_iff in X end.
  repeat split; assumption.
Qed.

Lemma skip_instance_tokens ts : forall rest f,
  stoks_ok ts (SEMI :: rest) = true -> (length ts <= f)%nat ->
  skip_instance (S f) (srender ts ++ SEMI :: rest) = Some rest.
Proof.
  induction ts as [|t r IH]; intros rest f Hok Hf.
  - cbn [srender flat_map app]. rewrite skip_instance_S. rewrite skip_ws_nonspace by reflexivity.
    change (SEMI =? SEMI) with true. reflexivity.
  - cbn [stoks_ok] in Hok. apply andb_true_iff in Hok. destruct Hok as [Ht Hr].
    cbn [length] in Hf. destruct f as [|f']; [lia|].
    assert (Hf' : (length r <= f')%nat) by lia.
    change (srender (t :: r)) with (stext t ++ srender r). rewrite <- app_assoc.
    destruct t as [its|txt|c]; cbn [stext stok_ok] in *.
    + apply andb_true_iff in Ht. destruct Ht as [Hits Hn]. apply negb_true_iff in Hn.
      change ((APOS :: body its ++ [APOS]) ++ ?m) with (APOS :: ((body its ++ [APOS]) ++ m)).
      rewrite <- app_assoc. change ([APOS] ++ ?m) with (APOS :: m).
      rewrite skip_instance_S. rewrite skip_ws_nonspace by reflexivity.
      change (APOS =? SEMI) with false. change (APOS =? APOS) with true. cbv iota.
      assert (Hh : not_apos_head (srender r ++ SEMI :: rest)).
      { destruct (srender r ++ SEMI :: rest) as [|x y]; [exact Logic.I|]. cbn [head_is] in Hn. exact Hn. }
      rewrite (string_read_wellformed its _ Hits Hh).
      apply (IH rest f' Hr Hf').
    + change ((SLASH :: STAR :: txt ++ [STAR; SLASH]) ++ ?m) with (SLASH :: STAR :: ((txt ++ [STAR; SLASH]) ++ m)).
      rewrite <- app_assoc. change ([STAR; SLASH] ++ ?m) with (STAR :: SLASH :: m).
      rewrite skip_instance_S. rewrite skip_ws_nonspace by reflexivity.
      change (SLASH =? SEMI) with false. change (SLASH =? APOS) with false. change (SLASH =? SLASH) with true.
      change (STAR =? STAR) with true. cbv iota.
      rewrite (comment_end_closes _ _ Ht). apply (IH rest f' Hr Hf').
    + destruct (schr_ok_tests c Ht) as (H1 & H2 & H3 & H4).
      cbn [app]. destruct (is_space c) eqn:Es.
      * rewrite (skip_instance_ws _ c _ Es). apply skip_instance_mono. apply (IH rest f' Hr Hf').
      * rewrite skip_instance_S. rewrite (skip_ws_nonspace _ _ Es). rewrite H1, H2, H3, H4.
        apply (IH rest f' Hr Hf').
Qed.

Lemma srender_length ts : (length ts <= length (srender ts))%nat.
Proof.
  induction ts as [|t r IH]; [apply le_n|].
  change (srender (t :: r)) with (stext t ++ srender r). rewrite app_length.
  assert (1 <= length (stext t))%nat by (destruct t; cbn [stext length]; lia). cbn [length]. lia.
Qed.

(* every record made of strings, comments and other characters ends at the first semicolon after it *)
Theorem skip_instance_wellformed ts rest :
  stoks_ok ts (SEMI :: rest) = true -> skip_inst (srender ts ++ SEMI :: rest) = Some rest.
Proof.
  intros Hok. unfold skip_inst. apply (skip_instance_tokens ts rest _ Hok).
  rewrite app_length. pose proof (srender_length ts). lia.
Qed.

(* a record that is never closed is never taken for a complete one *)
Theorem skip_instance_unterminated ts : forall f,
  stoks_ok ts [] = true -> skip_instance f (srender ts) = None.
Proof.
  induction ts as [|t r IH]; intros f Hok.
  - destruct f; reflexivity.
  - destruct f as [|f]; [reflexivity|].
    cbn [stoks_ok] in Hok. apply andb_true_iff in Hok. destruct Hok as [Ht Hr]. rewrite app_nil_r in Ht.
    change (srender (t :: r)) with (stext t ++ srender r).
    destruct t as [its|txt|c]; cbn [stext stok_ok] in *.
    + apply andb_true_iff in Ht. destruct Ht as [Hits Hn]. apply negb_true_iff in Hn.
      change ((APOS :: body its ++ [APOS]) ++ ?m) with (APOS :: ((body its ++ [APOS]) ++ m)).
      rewrite <- app_assoc. change ([APOS] ++ ?m) with (APOS :: m).
      rewrite skip_instance_S. rewrite skip_ws_nonspace by reflexivity.
      change (APOS =? SEMI) with false. change (APOS =? APOS) with true. cbv iota.
      assert (Hh : not_apos_head (srender r)).
      { destruct (srender r) as [|x y]; [exact Logic.I|]. cbn [head_is] in Hn. exact Hn. }
      rewrite (string_read_wellformed its _ Hits Hh). apply (IH f Hr).
    + change ((SLASH :: STAR :: txt ++ [STAR; SLASH]) ++ ?m) with (SLASH :: STAR :: ((txt ++ [STAR; SLASH]) ++ m)).
      rewrite <- app_assoc. change ([STAR; SLASH] ++ ?m) with (STAR :: SLASH :: m).
      rewrite skip_instance_S. rewrite skip_ws_nonspace by reflexivity.
      change (SLASH =? SEMI) with false. change (SLASH =? APOS) with false. change (SLASH =? SLASH) with true.
      change (STAR =? STAR) with true. cbv iota.
      rewrite (comment_end_closes _ _ Ht). apply (IH f Hr).
    + destruct (schr_ok_tests c Ht) as (H1 & H2 & H3 & H4).
      cbn [app]. destruct (is_space c) eqn:Es.
      * rewrite (skip_instance_ws _ c _ Es). apply (IH (S f) Hr).
      * rewrite skip_instance_S. rewrite (skip_ws_nonspace _ _ Es). rewrite H1, H2, H3, H4. apply (IH f Hr).
Qed.

(* ---------------- ReadTokenSeparator ---------------- *)
Lemma read_token_separator_S f l : read_token_separator (S f) l =
    match skip_ws l with
    | c :: r =>
      if c =? SLASH then
        match read_comment (c :: r) with
        | Some r' => read_token_separator f r'
        | None => []
        end
      else if c =? BSLASH then read_token_separator f (read_pcd (c :: r))
      else c :: r
    | [] => []
    end.
Proof. cbn [read_token_separator]. destruct (skip_ws l); reflexivity. Qed.

Lemma no_close_skip_ws txt : no_close txt = true -> no_close (skip_ws txt) = true.
Proof.
  induction txt as [|a t IH]; intros H; [reflexivity|].
  cbn [skip_ws]. destruct (is_space a); [|exact H].
  apply IH. destruct t as [|b t']; [reflexivity|].
  cbn [no_close] in H. apply andb_true_iff in H. exact (proj2 H).
Qed.

Lemma skip_ws_app_nonspace txt x k : is_space x = false -> skip_ws (txt ++ x :: k) = skip_ws txt ++ x :: k.
Proof.
  intros Hx. induction txt as [|a t IH]; cbn [app skip_ws].
  - rewrite Hx. reflexivity.
  - destruct (is_space a); [exact IH|reflexivity].
Qed.

(* any run of white space and comments is skipped, and nothing of the token after it *)
Lemma read_token_separator_seps pairs : forall wsf c rest f,
  seps_ok (pairs, wsf) = true -> is_space c = false -> (c =? SLASH) = false -> (c =? BSLASH) = false ->
  read_token_separator (S (length pairs + f)) (seps_text (pairs, wsf) ++ c :: rest) = c :: rest.
Proof.
  induction pairs as [|[ws txt] ps IH]; intros wsf c rest f Hok Hc Hs Hb.
  - unfold seps_ok in Hok. cbn [fst snd forallb andb] in Hok.
    unfold seps_text. cbn [fst snd flat_map app length Nat.add]. rewrite read_token_separator_S.
    rewrite (skip_ws_spaces _ _ Hok), (skip_ws_nonspace _ _ Hc). rewrite Hs, Hb. reflexivity.
  - unfold seps_ok in Hok. cbn [fst snd forallb] in Hok.
    apply andb_true_iff in Hok. destruct Hok as [H1 Hwf].
    apply andb_true_iff in H1. destruct H1 as [Hp Hps].
    apply andb_true_iff in Hp. destruct Hp as [Hws Htxt].
    unfold seps_text. cbn [fst snd flat_map length Nat.add].
    rewrite read_token_separator_S. rewrite <- !app_assoc. rewrite (skip_ws_spaces _ _ Hws).
    change ((SLASH :: STAR :: txt ++ [STAR; SLASH]) ++ ?m) with (SLASH :: STAR :: ((txt ++ [STAR; SLASH]) ++ m)).
    rewrite skip_ws_nonspace by reflexivity.
    change (SLASH =? SLASH) with true. cbv iota.
    unfold read_comment. change (STAR =? STAR) with true. cbv iota.
    rewrite <- app_assoc. change ([STAR; SLASH] ++ ?m) with (STAR :: SLASH :: m).
    rewrite (skip_ws_app_nonspace txt STAR _ eq_refl).
    rewrite (comment_end_closes _ _ (no_close_skip_ws _ Htxt)).
    assert (Hok' : seps_ok (ps, wsf) = true).
    { unfold seps_ok. cbn [fst snd]. rewrite Hps, Hwf. reflexivity. }
    specialize (IH wsf c rest f Hok' Hc Hs Hb). unfold seps_text in IH. cbn [fst snd] in IH.
    rewrite <- app_assoc in IH. exact IH.
Qed.

Lemma read_token_separator_more f : forall l x, read_token_separator f l = x ->
  (match x with c :: _ => is_space c = false /\ (c =? SLASH) = false /\ (c =? BSLASH) = false | [] => False end) ->
  read_token_separator (S f) l = x.
Proof.
  induction f as [|f IH]; intros l x H Hx.
  - cbn [read_token_separator] in H. subst x. destruct l as [|c r]; [contradiction|].
    destruct Hx as (A & B & C). rewrite read_token_separator_S. rewrite (skip_ws_nonspace _ _ A), B, C. reflexivity.
  - rewrite read_token_separator_S in H. rewrite read_token_separator_S.
    destruct (skip_ws l) as [|c r]; [subst x; contradiction|].
    destruct (c =? SLASH).
    + destruct (read_comment (c :: r)) as [r'|]; [|subst x; contradiction]. apply IH; assumption.
    + destruct (c =? BSLASH); [apply IH; assumption|exact H].
Qed.

Theorem token_separator_skips s c rest :
  seps_ok s = true -> is_space c = false -> (c =? SLASH) = false -> (c =? BSLASH) = false ->
  token_separator (seps_text s ++ c :: rest) = c :: rest.
Proof.
  destruct s as [pairs wsf]. intros Hok Hc Hs Hb. unfold token_separator.
  pose proof (seps_pairs_length (pairs, wsf)) as Hl. cbn [fst] in Hl.
  set (n := length (seps_text (pairs, wsf) ++ c :: rest)).
  assert (Hn : (length pairs <= n)%nat) by (unfold n; rewrite app_length; lia).
  pose proof (read_token_separator_seps pairs wsf c rest 0 Hok Hc Hs Hb) as H0. rewrite Nat.add_0_r in H0.
  assert (G : forall k, read_token_separator (S (length pairs) + k) (seps_text (pairs, wsf) ++ c :: rest) = c :: rest).
  { induction k as [|k IHk]; [rewrite Nat.add_0_r; exact H0|].
    rewrite Nat.add_succ_r. apply read_token_separator_more; [exact IHk|]. repeat split; assumption. }
  replace (S n) with (S (length pairs) + (n - length pairs))%nat by lia. apply G.
Qed.
