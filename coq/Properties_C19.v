(* C19 -- Python aggregate types enforce EXPRESS aggregate semantics.
   coq/PyAggr.v models the four classes of AggregationDataTypes.py line by line
   (base type INTEGER; values tagged with their Python type).  Proved for ARRAY,
   BAG and SET, for every bound pair, flag setting and operation sequence.
   LIST is modelled as implemented and REFUTED: a bounded LIST is indexed from its
   lower bound and pre-sized like an ARRAY, and get_size counts assigned slots; the
   witnesses below are replayed against the Python runtime by tools/c19.py and are
   recorded as open findings. *)
From Coq Require Import List ZArith Bool.
From SC Require Import PyAggr PyAggr_Proofs.
Import ListNotations.
Local Open Scope Z_scope.

(* ARRAY: well-formedness (index range b1..b2, exactly b2-b1+1 slots) holds after
   construction and after every operation *)
Theorem c19_array_invariant : forall b1 b2 u o a ops,
  new_agg KArray b1 b2 u o = inl a ->
  array_wf (fold_left (fun s op => fst (array_step s op)) ops a).
Proof.
  intros b1 b2 u o a ops H. apply new_array_wf in H. revert a H.
  induction ops as [|x r IH]; intros a H; cbn [fold_left]; [exact H|]. apply IH. apply array_step_wf. exact H.
Qed.
Print Assumptions c19_array_invariant.

Theorem c19_array_set_accepted_iff : forall a i v, array_wf a ->
  (exists a', array_step a (OSet i v) = (a', Ok RNone)) <->
  (a_b1 a <= i /\ (forall b2, a_b2 a = Some b2 -> i <= b2) /\ typed v = true /\
   (a_unique a = true -> mem_other v (a_cont a) (Z.to_nat (i - a_b1 a)) = false)).
Proof. exact array_set_accept. Qed.
Print Assumptions c19_array_set_accepted_iff.

Theorem c19_array_set_then_get : forall a i v a', array_wf a -> array_step a (OSet i v) = (a', Ok RNone) ->
  snd (array_step a' (OGet i)) = Ok (RVal v) /\
  forall j, j <> i -> snd (array_step a' (OGet j)) = snd (array_step a (OGet j)).
Proof. exact array_set_get. Qed.
Print Assumptions c19_array_set_then_get.

Theorem c19_array_unset_needs_optional : forall a i, array_wf a -> a_b1 a <= i ->
  (forall b2, a_b2 a = Some b2 -> i <= b2) ->
  nth (Z.to_nat (i - a_b1 a)) (a_cont a) None = None ->
  snd (array_step a (OGet i)) = if a_optional a then Ok RNone else Raise AssertionError.
Proof. exact array_get_unset. Qed.
Print Assumptions c19_array_unset_needs_optional.

(* BAG / SET: invariant (at most b2 elements, all of the base type, SET without
   duplicates) after construction and after every operation *)
Theorem c19_bagset_invariant : forall k b1 b2 u o a ops, (k = KBag \/ k = KSet) ->
  new_agg k b1 b2 u o = inl a ->
  bagset_wf (fold_left (fun s op => fst (bagset_step s op)) ops a).
Proof.
  intros k b1 b2 u o a ops Hk H. apply (new_bagset_wf k b1 b2 u o a Hk) in H. revert a H.
  induction ops as [|x r IH]; intros a H; cbn [fold_left]; [exact H|]. apply IH. apply bagset_step_wf. exact H.
Qed.
Print Assumptions c19_bagset_invariant.

Theorem c19_bag_add_accepted_iff : forall a v, bagset_wf a -> a_kind a = KBag ->
  (snd (bagset_step a (OAdd v)) = Ok RNone <->
   typed v = true /\ forall b2, a_b2 a = Some b2 -> Z.of_nat (length (a_cont a)) < b2).
Proof. exact bag_add_accept. Qed.
Print Assumptions c19_bag_add_accepted_iff.

Theorem c19_set_never_duplicates : forall a ops, bagset_wf a -> a_kind a = KSet ->
  NoDup (a_cont (fold_left (fun s o => fst (bagset_step s o)) ops a)).
Proof. exact set_nodup. Qed.
Print Assumptions c19_set_never_duplicates.

(* LIST, refuted.  EXPRESS: a LIST is indexed 1..SIZEOF and holds between b1 and b2
   elements.  The model of the implementation (and the implementation) disagree: *)
Theorem c19_list_refuted :
  (* LIST [0:3]: index 0 is accepted although list indices start at 1 *)
  (exists a a', new_agg KList 0 (Some 3) false false = inl a /\ step a (OSet 0 (VInt 1)) = (a', Ok RNone)) /\
  (* LIST [2:4]: the first element cannot be stored at index 1 *)
  (exists a, new_agg KList 2 (Some 4) false false = inl a /\ snd (step a (OSet 1 (VInt 1))) = Raise IndexError) /\
  (* LIST [1:3] with one element: reading index 2 raises an assertion instead of IndexError,
     and an element can be stored at index 3 leaving a hole at index 2 *)
  (exists a a1 a2, new_agg KList 1 (Some 3) false false = inl a /\ step a (OSet 1 (VInt 1)) = (a1, Ok RNone) /\
                   step a1 (OSet 3 (VInt 2)) = (a2, Ok RNone) /\ snd (step a2 QSize) = Ok (RInt 2) /\
                   snd (step a2 (OGet 2)) = Raise AssertionError).
Proof.
  split; [eexists; eexists; split; [reflexivity|vm_compute; reflexivity]|].
  split; [eexists; split; [reflexivity|vm_compute; reflexivity]|].
  eexists; eexists; eexists. split; [reflexivity|]. vm_compute. repeat split.
Qed.
Print Assumptions c19_list_refuted.
