(* Proofs about the severity bookkeeping model (C03, C15). *)
From Coq Require Import List ZArith Bool Lia.
From SC.gen Require Import SevTable NullTable.
From SC Require Import FileSev P21Lex_Proofs.
Import ListNotations.
Local Open Scope Z_scope.

Lemma filter_len_le {A} (f : A -> bool) l : (length (filter f l) <= length l)%nat.
Proof. induction l as [|x r IH]; cbn; [lia|]. destruct (f x); cbn; lia. Qed.

Definition bad (o : outcome) : Prop :=
  match o with
  | NotCreated => True
  | Simple s => s <= SEVERITY_INCOMPLETE
  | Complex s => s <= SEVERITY_INCOMPLETE
  end.

Definition fine (o : outcome) : Prop :=
  match o with
  | NotCreated => False
  | Simple s => s = SEVERITY_NULL \/ s = SEVERITY_USERMSG
  | Complex s => s = SEVERITY_NULL \/ s = SEVERITY_USERMSG
  end.

Lemma greater_mono a b c : a <= b -> greater a c <= greater b c.
Proof. unfold greater. intros H. destruct (c <? a) eqn:E1; destruct (c <? b) eqn:E2;
  try apply Z.ltb_lt in E1; try apply Z.ltb_lt in E2; try apply Z.ltb_ge in E1; try apply Z.ltb_ge in E2; lia. Qed.

(* one pass-2 step never improves the file severity and never lowers the counters *)
Lemma append_entity_error_le st s : fsev (append_entity_error st s) <= fsev st /\
  ents_invalid (append_entity_error st s) = ents_invalid st /\ valid (append_entity_error st s) = valid st.
Proof.
  unfold append_entity_error. destruct (Z.eqb s SEVERITY_NULL); cbn; [lia|].
  split; [apply greater_le_l|auto].
Qed.

Lemma count_obj_props st s :
  fsev (count_obj st s) = fsev st /\ ents_invalid st <= ents_invalid (count_obj st s) /\
  valid st <= valid (count_obj st s) <= valid st + 1.
Proof.
  unfold count_obj. destruct (s <? SEVERITY_INCOMPLETE); cbn; [lia|].
  destruct (Z.eqb s SEVERITY_INCOMPLETE); cbn; [lia|].
  destruct (Z.eqb s SEVERITY_USERMSG); cbn; lia.
Qed.

Lemma pass2_step_mono ca st o :
  fsev (pass2_step ca st o) <= fsev st /\ ents_invalid st <= ents_invalid (pass2_step ca st o) /\
  valid st <= valid (pass2_step ca st o).
Proof.
  destruct o as [|s|s]; cbn [pass2_step].
  - cbn. lia.
  - destruct (append_entity_error_le st s) as [H1 [H2 H3]].
    destruct (count_obj_props (append_entity_error st s) SEVERITY_NULL) as [H4 [H5 H6]]. lia.
  - destruct ca.
    + destruct (append_entity_error_le st s) as [H1 [H2 H3]].
      destruct (count_obj_props (append_entity_error st s) SEVERITY_NULL) as [H4 [H5 H6]]. lia.
    + destruct (count_obj_props st s) as [H4 [H5 H6]]. lia.
Qed.

Lemma fold_mono ca os st :
  fsev (fold_left (pass2_step ca) os st) <= fsev st /\
  ents_invalid st <= ents_invalid (fold_left (pass2_step ca) os st).
Proof.
  revert st. induction os as [|o r IH]; intros st; cbn [fold_left]; [lia|].
  destruct (IH (pass2_step ca st o)) as [H1 H2]. destruct (pass2_step_mono ca st o) as [H3 [H4 _]]. lia.
Qed.

(* a bad pass-2 outcome leaves a trace: severity <= INCOMPLETE or an invalid entity counted *)
Lemma bad_step ca st o : bad o -> o <> NotCreated ->
  fsev (pass2_step ca st o) <= SEVERITY_INCOMPLETE \/ 0 <= ents_invalid st -> 
  fsev (pass2_step ca st o) <= SEVERITY_INCOMPLETE \/ ents_invalid st < ents_invalid (pass2_step ca st o).
Proof.
  intros Hb Hn _. unfold SEVERITY_INCOMPLETE in *.
  assert (Happ : forall s, s <= 1 -> fsev (count_obj (append_entity_error st s) SEVERITY_NULL) <= 1).
  { intros s Hs. destruct (count_obj_props (append_entity_error st s) SEVERITY_NULL) as [H4 _]. rewrite H4.
    unfold append_entity_error, SEVERITY_NULL. destruct (Z.eqb_spec s 3); [lia|]. cbn [fsev].
    unfold SEVERITY_WARNING. destruct (s <? 0) eqn:E.
    - pose proof (greater_le_r (fsev st) 0). lia.
    - pose proof (greater_le_r (fsev st) s). lia. }
  destruct o as [|s|s]; [congruence| |]; cbn in Hb; cbn [pass2_step].
  - left. apply Happ. exact Hb.
  - destruct ca; [left; apply Happ; exact Hb|].
    right. unfold count_obj, SEVERITY_INCOMPLETE.
    unfold SEVERITY_INCOMPLETE in Hb.
    destruct (s <? 1) eqn:E1; cbn; [lia|]. apply Z.ltb_ge in E1.
    assert (s = 1) by lia. subst. cbn. lia.
Qed.

Lemma bad_in_fold ca os st :
  0 <= ents_invalid st ->
  (exists o, In o os /\ bad o /\ o <> NotCreated) ->
  fsev (fold_left (pass2_step ca) os st) <= SEVERITY_INCOMPLETE \/
  0 < ents_invalid (fold_left (pass2_step ca) os st).
Proof.
  revert st. induction os as [|o r IH]; intros st H0 [x [Hin [Hb Hn]]]; [contradiction|].
  cbn [fold_left]. destruct Hin as [->|Hin].
  - destruct (bad_step ca st x Hb Hn (or_intror H0)) as [H|H].
    + left. destruct (fold_mono ca r (pass2_step ca st x)) as [H1 _]. lia.
    + right. destruct (fold_mono ca r (pass2_step ca st x)) as [_ H2]. lia.
  - apply IH; [destruct (pass2_step_mono ca st o) as [_ [H _]]; lia|]. exists x. auto.
Qed.

(* C03: any instance that pass 1 could not create or that pass 2 read with a
   severity of INCOMPLETE or worse makes the file severity INCOMPLETE or worse. *)
Lemma s2_from_trace (f e : Z) :
  f <= SEVERITY_INCOMPLETE \/ 0 < e ->
  (if 0 <? e then greater f SEVERITY_WARNING else f) <= SEVERITY_INCOMPLETE.
Proof.
  unfold SEVERITY_INCOMPLETE, SEVERITY_WARNING. intros [H|H].
  - destruct (0 <? e); [pose proof (greater_le_l f 0)|]; lia.
  - destruct (0 <? e) eqn:E; [pose proof (greater_le_r f 0); lia|apply Z.ltb_ge in E; lia].
Qed.

Lemma not_created_counted os : In NotCreated os ->
  0 < Z.of_nat (length os) - Z.of_nat (length (filter created os)).
Proof.
  induction os as [|o r IH]; [contradiction|]. intros Hin.
  cbn [filter length]. destruct Hin as [->|Hin].
  - cbn [created]. pose proof (filter_len_le created r). cbn [length]. lia.
  - specialize (IH Hin). destruct (created o); cbn [length]; lia.
Qed.

Lemma bad_outcome_rejected ca sev0 os end_ok :
  (exists o, In o os /\ bad o) ->
  snd (append_file ca sev0 os end_ok) <= SEVERITY_INCOMPLETE.
Proof.
  intros [x [Hin Hb]]. unfold append_file.
  remember (Z.of_nat (length (filter created os))) as total eqn:Et.
  remember (Z.of_nat (length os) - total) as nc eqn:En.
  remember (if 0 <? nc then greater sev0 SEVERITY_WARNING else sev0) as s1 eqn:Es1.
  remember (fold_left (pass2_step ca) os {| fsev := s1; errcount := 0; ents_invalid := 0; valid := 0 |}) as st eqn:Est.
  assert (Hs2 : (if 0 <? ents_invalid st then greater (fsev st) SEVERITY_WARNING else fsev st) <= SEVERITY_INCOMPLETE).
  { apply s2_from_trace.
    destruct (fold_mono ca os {| fsev := s1; errcount := 0; ents_invalid := 0; valid := 0 |}) as [Hf _].
    rewrite <- Est in Hf. cbn [fsev] in Hf.
    destruct x as [|s|s].
    - left. assert (Hnc : 0 < nc) by (subst nc total; apply not_created_counted; exact Hin).
      assert (Hs1 : s1 <= SEVERITY_WARNING).
      { subst s1. destruct (0 <? nc) eqn:E; [apply greater_le_r|apply Z.ltb_ge in E; lia]. }
      unfold SEVERITY_INCOMPLETE, SEVERITY_WARNING in *. lia.
    - rewrite Est. apply bad_in_fold; [cbn; lia|]. exists (Simple s). split; [exact Hin|]. split; [exact Hb|discriminate].
    - rewrite Est. apply bad_in_fold; [cbn; lia|]. exists (Complex s). split; [exact Hin|]. split; [exact Hb|discriminate]. }
  remember (if 0 <? ents_invalid st then greater (fsev st) SEVERITY_WARNING else fsev st) as s2.
  destruct (negb (Z.eqb total (valid st))); cbn [snd].
  - pose proof (greater_le_l s2 SEVERITY_WARNING). lia.
  - destruct (negb end_ok); cbn [snd]; [pose proof (greater_le_l s2 SEVERITY_WARNING); lia|exact Hs2].
Qed.

(* C15 / C01: when every instance is read clean or with a mere user message, the
   file is accepted: severity >= USERMSG (exit 0), and NULL when all are clean. *)
Lemma fine_fold os st :
  Forall fine os -> SEVERITY_USERMSG <= fsev st ->
  let st' := fold_left (pass2_step true) os st in
  SEVERITY_USERMSG <= fsev st' /\ ents_invalid st' = ents_invalid st /\
  valid st' = valid st + Z.of_nat (length os) /\
  ((forall o, In o os -> o = Simple SEVERITY_NULL \/ o = Complex SEVERITY_NULL) -> fsev st' = fsev st).
Proof.
  revert st. induction os as [|o r IH]; intros st Hf Hs; cbn [fold_left length].
  - cbn. repeat split; try lia. 
  - inversion Hf as [|? ? Ho Hr]. subst.
    assert (Hstep : SEVERITY_USERMSG <= fsev (pass2_step true st o) /\
                    ents_invalid (pass2_step true st o) = ents_invalid st /\
                    valid (pass2_step true st o) = valid st + 1 /\
                    ((o = Simple SEVERITY_NULL \/ o = Complex SEVERITY_NULL) -> fsev (pass2_step true st o) = fsev st)).
    { assert (Hnull : forall st1, count_obj st1 SEVERITY_NULL =
                {| fsev := fsev st1; errcount := errcount st1; ents_invalid := ents_invalid st1; valid := valid st1 + 1 |})
        by reflexivity.
      assert (Ha0 : append_entity_error st SEVERITY_NULL = st) by reflexivity.
      assert (Ha2 : append_entity_error st SEVERITY_USERMSG =
                {| fsev := greater (fsev st) SEVERITY_USERMSG; errcount := errcount st;
                   ents_invalid := ents_invalid st; valid := valid st |}) by reflexivity.
      assert (Hg : SEVERITY_USERMSG <= greater (fsev st) SEVERITY_USERMSG).
      { unfold greater. destruct (SEVERITY_USERMSG <? fsev st) eqn:E; [lia|exact Hs]. }
      destruct o as [|s|s]; cbn in Ho; [contradiction| |]; cbn [pass2_step]; destruct Ho as [->| ->];
        rewrite Hnull; rewrite ?Ha0, ?Ha2; cbn [fsev ents_invalid valid]; repeat split; try lia; try reflexivity.
      all: intros [H|H]; inversion H. }
    destruct Hstep as [H1 [H2 [H3 H4]]].
    destruct (IH (pass2_step true st o) Hr H1) as [G1 [G2 [G3 G4]]].
    cbn zeta in *. repeat split; try lia.
    intros Hall. rewrite G4; [apply H4; apply Hall; left; reflexivity|].
    intros x Hx. apply Hall. right. exact Hx.
Qed.

Lemma created_all os : Forall fine os -> length (filter created os) = length os.
Proof.
  induction 1 as [|o r Ho Hr IH]; [reflexivity|]. destruct o; [contradiction| |]; cbn; rewrite IH; reflexivity.
Qed.

Lemma all_fine_accepted os :
  Forall fine os ->
  SEVERITY_USERMSG <= snd (append_file true SEVERITY_NULL os true) /\
  ((forall o, In o os -> o = Simple SEVERITY_NULL \/ o = Complex SEVERITY_NULL) ->
     append_file true SEVERITY_NULL os true = (SEVERITY_NULL, SEVERITY_NULL)).
Proof.
  intros Hf. unfold append_file. rewrite (created_all os Hf). rewrite Z.sub_diag. cbn [Z.ltb Z.compare].
  set (st0 := {| fsev := SEVERITY_NULL; errcount := 0; ents_invalid := 0; valid := 0 |}).
  destruct (fine_fold os st0 Hf ltac:(cbn; unfold SEVERITY_USERMSG, SEVERITY_NULL; lia)) as [G1 [G2 [G3 G4]]].
  cbn zeta in *. cbn [ents_invalid valid st0] in G2, G3. rewrite G2. cbn [Z.ltb Z.compare].
  rewrite G3. rewrite Z.add_0_l, Z.eqb_refl. cbn [negb snd].
  split; [exact G1|]. intros Hall. rewrite (G4 Hall). reflexivity.
Qed.

(* instance level: an attribute error at USERMSG or worse is never lost *)
Lemma inst_sev_le sevs s : In s sevs -> s <= SEVERITY_USERMSG -> inst_sev sevs <= s.
Proof.
  unfold inst_sev. generalize SEVERITY_NULL as acc.
  induction sevs as [|x r IH]; intros acc Hin Hs; [contradiction|]. cbn [fold_left].
  assert (Hm : forall l a, fold_left (fun acc s0 => if s0 <=? SEVERITY_USERMSG then greater acc s0 else acc) l a <= a).
  { induction l as [|y l' IHl]; intros a; cbn [fold_left]; [lia|].
    destruct (y <=? SEVERITY_USERMSG); [|apply IHl]. pose proof (IHl (greater a y)). pose proof (greater_le_l a y). lia. }
  destruct Hin as [->|Hin].
  - replace (s <=? SEVERITY_USERMSG) with true by (symmetry; apply Z.leb_le; exact Hs).
    pose proof (Hm r (greater acc s)). pose proof (greater_le_r acc s). lia.
  - apply IH; assumption.
Qed.

Lemma inst_sev_clean sevs : (forall s, In s sevs -> s = SEVERITY_NULL) -> inst_sev sevs = SEVERITY_NULL.
Proof.
  unfold inst_sev. induction sevs as [|x r IH]; intros H; [reflexivity|]. cbn [fold_left].
  rewrite (H x (or_introl eq_refl)). vm_compute (SEVERITY_NULL <=? SEVERITY_USERMSG). apply IH.
  intros s Hs. apply H. right. exact Hs.
Qed.

(* ---- externally mapped instances ---- *)
Lemma parts_fold_le parts : forall acc,
  fold_left (fun acc p => if part_counts p then greater acc (fst p) else acc) parts acc <= acc.
Proof.
  induction parts as [|p r IH]; intros acc; cbn [fold_left]; [lia|].
  destruct (part_counts p).
  - specialize (IH (greater acc (fst p))). pose proof (greater_le_l acc (fst p)). lia.
  - apply IH.
Qed.

Lemma parts_fold_keeps parts : forall acc p, In p parts -> part_counts p = true ->
  fold_left (fun acc p => if part_counts p then greater acc (fst p) else acc) parts acc <= fst p.
Proof.
  induction parts as [|q r IH]; intros acc p Hin Hc; [contradiction|].
  cbn [fold_left]. destruct Hin as [->|Hin].
  - rewrite Hc. pose proof (parts_fold_le r (greater acc (fst p))). pose proof (greater_le_r acc (fst p)). lia.
  - apply IH; assumption.
Qed.

(* what a part reported is never lost, unless it is exactly the tolerated case *)
Lemma complex_sev_keeps own parts p : In p parts -> part_counts p = true -> complex_sev own parts <= fst p.
Proof.
  intros Hin Hc. unfold complex_sev.
  pose proof (parts_fold_keeps parts SEVERITY_NULL p Hin Hc) as H.
  unfold part_counts in Hc. apply andb_true_iff in Hc. destruct Hc as [Hlt _]. apply Z.ltb_lt in Hlt.
  set (pe := fold_left _ parts SEVERITY_NULL) in *.
  destruct (Z.ltb_spec pe SEVERITY_NULL) as [E|E]; [|lia].
  pose proof (greater_le_r own pe). lia.
Qed.

Lemma complex_sev_own own parts : complex_sev own parts <= own.
Proof.
  unfold complex_sev. set (pe := fold_left _ parts SEVERITY_NULL).
  destruct (pe <? SEVERITY_NULL); [apply greater_le_l|lia].
Qed.

(* the tolerated case is exactly: severity WARNING, and every attribute that complains is derived by another part *)
Lemma part_tolerated_iff p : fst p < SEVERITY_NULL ->
  (part_counts p = false <-> fst p = SEVERITY_WARNING /\ only_derived_values_given (snd p) = true).
Proof.
  intros Hlt. unfold part_counts. apply Z.ltb_lt in Hlt. rewrite Hlt. cbn [andb].
  rewrite negb_false_iff, andb_true_iff, Z.eqb_eq. reflexivity.
Qed.

(* an error on an attribute that is not derived is never tolerated *)
Lemma not_derived_never_tolerated attrs a : In a attrs -> fst a < SEVERITY_USERMSG -> snd a = false ->
  only_derived_values_given attrs = false.
Proof.
  intros Hin Hs Hd. unfold only_derived_values_given.
  apply andb_false_iff. left. apply not_true_iff_false. intros Hall.
  rewrite forallb_forall in Hall. specialize (Hall a Hin).
  apply Z.ltb_lt in Hs. rewrite Hs, Hd in Hall. discriminate.
Qed.

Lemma clean_parts_clean own parts : (forall p, In p parts -> fst p = SEVERITY_NULL) -> complex_sev own parts = own.
Proof.
  intros H. unfold complex_sev.
  assert (E : fold_left (fun acc p => if part_counts p then greater acc (fst p) else acc) parts SEVERITY_NULL = SEVERITY_NULL).
  { induction parts as [|p r IH]; [reflexivity|]. cbn [fold_left].
    assert (Hp : part_counts p = false).
    { unfold part_counts. rewrite (H p (or_introl eq_refl)). reflexivity. }
    rewrite Hp. apply IH. intros q Hq. apply H. right. exact Hq. }
  rewrite E. reflexivity.
Qed.

(* a part written twice is reported, whatever else the record holds *)
Lemma complex_sev_named_dup own named : has_dup (map fst named) = true -> complex_sev_named own named <= SEVERITY_WARNING.
Proof.
  intros D. unfold complex_sev_named. rewrite D.
  set (pe0 := fold_left _ (map snd named) SEVERITY_NULL).
  pose proof (greater_le_r pe0 SEVERITY_WARNING) as G.
  destruct (Z.ltb_spec (greater pe0 SEVERITY_WARNING) SEVERITY_NULL) as [E|E].
  - pose proof (greater_le_r own (greater pe0 SEVERITY_WARNING)). lia.
  - unfold SEVERITY_WARNING, SEVERITY_NULL in *. lia.
Qed.

(* and when every part stands once, nothing changes *)
Lemma complex_sev_named_nodup own named : has_dup (map fst named) = false -> complex_sev_named own named = complex_sev own (map snd named).
Proof. intros D. unfold complex_sev_named, complex_sev. rewrite D. reflexivity. Qed.
