(* C01 / C03: the first pass of the eager reader over a DATA section - which instances it creates.
     src/cleditor/STEPfile.cc      ReadData1, CreateInstance, CreateSubSuperInstance
     src/clstepcore/read_func.cc   FoundEndSecKywd, ReadStdKeyword, SkipSimpleRecord, PushPastImbedAggr,
                                   ReadTokenSeparator and SkipInstance (coq/P21Skip.v)
   The input is the text that follows "DATA;".  Which keywords the registry can instantiate and which
   combinations of parts an externally mapped instance may have are arguments (the second is the
   subject of C08).  Paths the model does not follow - the recovery from text that is no instance
   (FindStartOfInstance) and scope instances - end the run with the status Unmodelled; everything
   created up to there is still reported.  The second half of the file describes the data sections the
   theorems of P21Pass1_Proofs.v speak about: simple and externally mapped instances in any layout.
   No proofs here; extracted for the correspondence check. *)
From Coq Require Import List ZArith Bool NArith.
From SC Require Import P21Lex P21Str P21Sep P21Skip.
Import ListNotations.
Local Open Scope N_scope.

Definition INT_MAX : Z := 2147483647.
Definition INT_MIN : Z := (-2147483648)%Z.

(* FoundEndSecKywd(): the characters of ENDSEC that matched stay consumed when a later one does not *)
Fixpoint match_prefix (p : list byte) (l : list byte) : bool * list byte :=
  match p with
  | [] => (true, l)
  | a :: p' =>
    match l with
    | c :: r => if c =? a then match_prefix p' r else (false, l)      (* putback( c ) *)
    | [] => (false, [])
    end
  end.

Definition found_endsec (l : list byte) : bool * list byte :=
  let '(ok, r) := match_prefix [69; 78; 68; 83; 69; 67] (skip_ws l) in
  if ok then
    match skip_ws r with
    | c :: r' => if c =? SEMI then (true, r') else (false, c :: r')
    | [] => (false, [])
    end
  else (false, r).

(* operator>>( int & ): white space, an optional sign, digits; None = failbit (no digit, or out of range) *)
Fixpoint int_digits (l : list byte) (acc : Z) (cnt : nat) : Z * nat * list byte :=
  match l with
  | c :: r => if is_digit c then int_digits r (acc * 10 + Z.of_N (c - 48))%Z (S cnt) else (acc, cnt, l)
  | [] => (acc, cnt, [])
  end.

Definition read_int (l : list byte) : option Z * list byte :=
  let l1 := skip_ws l in
  let '(neg, l2) := match l1 with
                    | c :: r => if c =? 45 then (true, r) else if c =? 43 then (false, r) else (false, l1)
                    | [] => (false, [])
                    end in
  let '(v, cnt, l3) := int_digits l2 0%Z 0 in
  match cnt with
  | O => (None, l3)
  | _ => let v' := if neg then (- v)%Z else v in
         if ((v' <? INT_MIN) || (INT_MAX <? v'))%Z then (None, l3) else (Some v', l3)
  end.

Definition is_alpha (c : byte) : bool := ((65 <=? c) && (c <=? 90)) || ((97 <=? c) && (c <=? 122)).
Definition is_alnum_us (c : byte) : bool := is_alpha c || is_digit c || (c =? 95).

(* ReadStdKeyword( in, buf, 1 ) *)
Fixpoint std_keyword_loop (l : list byte) (acc : list byte) : list byte * list byte :=
  match l with
  | c :: r => if is_alnum_us c then std_keyword_loop r (acc ++ [c]) else (acc, l)
  | [] => (acc, [])
  end.
Definition read_std_keyword (l : list byte) : list byte * list byte := std_keyword_loop (skip_ws l) [].

(* after an opening parenthesis: up to and including the one that closes it, strings honoured (no comments);
   SkipSimpleRecord / PushPastImbedAggr.  None: the input ends first *)
Fixpoint skip_balanced (fuel : nat) (l : list byte) (depth : nat) : option (list byte) :=
  match fuel with
  | O => None
  | S f =>
    match l with
    | [] => None
    | c :: r =>
      if c =? RPAR then match depth with O | S O => Some r | S d => skip_balanced f r d end
      else if c =? LPAR then skip_balanced f r (S depth)
      else if c =? APOS then
        let '(_, unclosed, r') := get_literal l in
        if unclosed then None else skip_balanced f r' depth
      else skip_balanced f r depth
    end
  end.

(* SkipSimpleRecord(): white space, then a parenthesised record if there is one *)
Definition skip_simple_record (l : list byte) : option (list byte) :=
  match skip_ws l with
  | c :: r => if c =? LPAR then skip_balanced (S (length r)) r 1 else Some (c :: r)
  | [] => Some []
  end.

(* the inner loop of CreateSubSuperInstance: skip what is neither a letter nor the closing parenthesis.
   None: out of fuel; Some []: the input ended *)
Fixpoint skip_junk (g : nat) (m : list byte) : option (list byte) :=
  match g with
  | O => None
  | S g' =>
    match skip_ws m with
    | [] => Some []
    | x :: m' => if (x =? RPAR) || is_alpha x then Some (x :: m') else skip_junk g' m'
    end
  end.

(* the loop of CreateSubSuperInstance after the opening parenthesis: the names of the parts; the closing
   parenthesis of the whole record is left in the stream *)
Fixpoint part_names (fuel : nat) (l : list byte) (acc : list (list byte)) : option (list (list byte) * list byte) :=
  match fuel with
  | O => None
  | S f =>
    match l with
    | [] => Some (acc, [])
    | c :: _ =>
      if c =? RPAR then Some (acc, l)
      else if Nat.leb 63 (length acc) then Some (acc, l)           (* enaSize - 1 names at most *)
      else
        let '(nm, r1) := read_std_keyword l in
        let acc' := acc ++ match nm with [] => [] | _ => [nm] end in
        match (match nm with [] => Some r1 | _ => skip_simple_record r1 end) with
        | None => Some (acc', [])
        | Some r2 =>
          match skip_junk (S (length r2)) r2 with
          | None => None
          | Some [] => Some (acc', [])
          | Some m => part_names f m acc'
          end
        end
    end
  end.

Inductive created : Set :=
| CSimple (id : Z) (kw : list byte)
| CComplex (id : Z) (names : list (list byte)).

Inductive status : Set := Done | Bad | Unmodelled.

Definition cid (c : created) : Z := match c with CSimple i _ => i | CComplex i _ => i end.

Section Pass1.
  Variable creatable : list byte -> bool.                       (* Registry::ObjCreate succeeds for this keyword *)
  Variable legal : list (list byte) -> option bool.             (* the STEPcomplex of these parts is accepted; None: not known *)

  Definition after_record (l : list byte) : option (list byte) :=
    match skip_inst l with
    | Some r => Some (token_separator r)
    | None => None
    end.

  (* CreateInstance(), entered after the number sign: (what was created, the stream, may the loop go on) *)
  Definition create_instance (have : list Z) (l : list byte) : option created * option (list byte) * status :=
    match read_int (token_separator l) with
    | (None, _) => (None, None, Bad)
    | (Some id, l2) =>
      if existsb (Z.eqb id) have then (None, skip_inst l2, Done)          (* "already exists" *)
      else
        match token_separator l2 with
        | c :: l3 =>
          if negb (c =? EQUALS) then (None, skip_inst l3, Done)            (* '=' expected *)
          else
            match token_separator l3 with
            | [] => (None, None, Bad)
            | c4 :: r4 =>
              if c4 =? 38 then (None, None, Unmodelled)                    (* &SCOPE *)
              else if c4 =? LPAR then
                match part_names (S (length r4)) (skip_ws r4) [] with
                | None => (None, None, Unmodelled)
                | Some (names, r5) =>
                  match legal names with
                  | None => (None, None, Unmodelled)
                  | Some true => (Some (CComplex id names), after_record r5, Done)
                  | Some false => (None, skip_inst r5, Done)
                  end
                end
              else if c4 =? BANG then
                let '(_, r5) := read_std_keyword r4 in (None, skip_inst r5, Done)     (* user defined entity *)
              else
                let '(kw, r5) := read_std_keyword (c4 :: r4) in
                if creatable kw then (Some (CSimple id kw), after_record r5, Done)
                else (None, skip_inst r5, Done)
            end
        | [] => (None, None, Bad)
        end
    end.

  (* InstMgr::Append(): the name 0 stands for "none" and is replaced by the next free one; the manager
     remembers the greatest name it has held (ids: the names it holds, mx: maxFileId).  Names are unbounded here; the
     code keeps them in an int and stays at INT_MAX once it is reached (no theorem speaks of that corner) *)
  Definition next_id (mx : Z) : Z := if (mx <? 0)%Z then 1%Z else (mx + 1)%Z.
  Definition mgr_append (ids : list Z) (mx : Z) (id : Z) : list Z * Z :=
    let '(stored, mx1) := if (id =? 0)%Z then (next_id mx, next_id mx) else (id, mx) in
    (ids ++ [stored], Z.max mx1 stored).

  (* the loop of ReadData1; acc: the instances as CreateInstance returned them *)
  Fixpoint pass1 (fuel : nat) (l : list byte) (acc : list created) (ids : list Z) (mx : Z) : list created * status :=
    match fuel with
    | O => (acc, Unmodelled)
    | S f =>
      match l with
      | [] => (acc, Bad)
      | _ =>
        match skip_ws (token_separator l) with
        | [] => (acc, Bad)
        | c :: r =>
          if negb (c =? HASH) then (acc, Unmodelled)                       (* recovery through FindStartOfInstance *)
          else
            let '(made, rest, st) := create_instance ids r in
            let acc' := acc ++ match made with Some m => [m] | None => [] end in
            let '(ids', mx') := match made with Some m => mgr_append ids mx (cid m) | None => (ids, mx) end in
            match st with
            | Done =>
              match rest with
              | None => (acc', Bad)
              | Some r1 =>
                let '(es, r2) := found_endsec r1 in
                if es then (acc', Done) else pass1 f r2 acc' ids' mx'
              end
            | _ => (acc', st)
            end
        end
      end
    end.

  Definition read_data1 (l : list byte) : list created * status :=
    let '(es, r) := found_endsec l in
    if es then ([], Done) else pass1 (S (length l)) r [] [] (-1)%Z.
End Pass1.

(* ------------------------------------------------------------------------------------------
   Simple instances of a conforming data section in any layout, as the first pass meets them
   (the number sign included).
   ------------------------------------------------------------------------------------------ *)
Definition ival (ds : list byte) : Z := fold_left (fun a c => (a * 10 + Z.of_N (c - 48))%Z) ds 0%Z.

Record sinst : Set := mkSI {
  si_s0 : seps;            (* before the number sign *)
  si_s1 : seps;            (* between the number sign and the digits (the reader allows it) *)
  si_ds : list byte;       (* the digits *)
  si_s2 : seps;            (* before the equals sign *)
  si_s3 : seps;            (* after it *)
  si_kw : list byte;       (* the keyword *)
  si_rec : list stok       (* everything between the keyword and the semicolon *)
}.

Definition sinst_text (i : sinst) : list byte :=
  seps_text (si_s0 i) ++ HASH :: seps_text (si_s1 i) ++ si_ds i ++ seps_text (si_s2 i) ++ EQUALS :: seps_text (si_s3 i)
  ++ si_kw i ++ srender (si_rec i) ++ [SEMI].

Definition kw_start_ok (c : byte) : bool :=
  negb (is_space c) && negb (c =? SLASH) && negb (c =? BSLASH) && negb (c =? 38) && negb (c =? LPAR) && negb (c =? BANG).

Definition sinst_ok (i : sinst) (next : list byte) : bool :=
  seps_ok (si_s0 i) && seps_ok (si_s1 i) && seps_ok (si_s2 i) && seps_ok (si_s3 i)
  && forallb is_digit (si_ds i) && negb (ival (si_ds i) =? 0)%Z && (ival (si_ds i) <=? INT_MAX)%Z
  && forallb is_alnum_us (si_kw i) && head_is kw_start_ok (si_kw i)
  && negb (head_is is_alnum_us (srender (si_rec i) ++ [SEMI]))
  && stoks_ok (si_rec i) (SEMI :: next).

Definition sinst_body (i : sinst) : list byte :=
  seps_text (si_s1 i) ++ si_ds i ++ seps_text (si_s2 i) ++ EQUALS :: seps_text (si_s3 i) ++ si_kw i ++ srender (si_rec i) ++ [SEMI].

Fixpoint insts_ok (is : list sinst) (tail : list byte) : bool :=
  match is with
  | [] => true
  | i :: r => sinst_ok i (flat_map sinst_text r ++ tail) && insts_ok r tail
  end.

Definition sinst_summary (i : sinst) : created := CSimple (ival (si_ds i)) (si_kw i).

(* ------------------------------------------------------------------------------------------
   Externally mapped (complex) instances:  #n = ( PART_A(...) PART_B(...) ... );
   ------------------------------------------------------------------------------------------ *)
Inductive btok : Set :=
| BStr (its : list item)
| BOpen
| BClose
| BChr (c : byte).          (* anything but parentheses and apostrophes *)

Definition btext (t : btok) : list byte :=
  match t with
  | BStr its => APOS :: body its ++ [APOS]
  | BOpen => [LPAR]
  | BClose => [RPAR]
  | BChr c => [c]
  end.
Definition brender (ts : list btok) : list byte := flat_map btext ts.

Definition bchr_ok (c : byte) : bool := negb (c =? LPAR) && negb (c =? RPAR) && negb (c =? APOS).

(* the last token, and no token before it, closes the parenthesis that is open d deep *)
Fixpoint closes (d : nat) (ts : list btok) : bool :=
  match ts with
  | [] => false
  | BClose :: r =>
    match d with
    | O => false
    | S O => match r with [] => true | _ => false end
    | S d' => closes d' r
    end
  | BOpen :: r => closes (S d) r
  | BStr its :: r => forallb item_ok its && negb (head_is (fun c => c =? APOS) (brender r)) && closes d r
  | BChr c :: r => bchr_ok c && closes d r
  end.

Record cpart : Set := mkCP {
  cp_name : list byte;
  cp_ws1 : list byte;        (* white space before the opening parenthesis *)
  cp_toks : list btok;       (* the values and the closing parenthesis *)
  cp_ws2 : list byte         (* white space after it *)
}.

Definition cpart_text (p : cpart) : list byte :=
  cp_name p ++ cp_ws1 p ++ LPAR :: brender (cp_toks p) ++ cp_ws2 p.

Definition cpart_ok (p : cpart) : bool :=
  forallb is_alnum_us (cp_name p) && head_is is_alpha (cp_name p) && forallb is_space (cp_ws1 p)
  && closes 1 (cp_toks p) && forallb is_space (cp_ws2 p).

Record cinst : Set := mkCI {
  ci_s0 : seps;
  ci_s1 : seps;
  ci_ds : list byte;
  ci_s2 : seps;
  ci_s3 : seps;
  ci_ws0 : list byte;        (* white space after the opening parenthesis *)
  ci_parts : list cpart;
  ci_rec : list stok         (* between the closing parenthesis and the semicolon *)
}.

Definition cinst_body (i : cinst) : list byte :=
  seps_text (ci_s1 i) ++ ci_ds i ++ seps_text (ci_s2 i) ++ EQUALS :: seps_text (ci_s3 i)
  ++ LPAR :: ci_ws0 i ++ flat_map cpart_text (ci_parts i) ++ RPAR :: srender (ci_rec i) ++ [SEMI].

Definition cinst_ok (i : cinst) (next : list byte) : bool :=
  seps_ok (ci_s0 i) && seps_ok (ci_s1 i) && seps_ok (ci_s2 i) && seps_ok (ci_s3 i)
  && forallb is_digit (ci_ds i) && negb (ival (ci_ds i) =? 0)%Z && (ival (ci_ds i) <=? INT_MAX)%Z
  && forallb is_space (ci_ws0 i) && forallb cpart_ok (ci_parts i) && Nat.leb (length (ci_parts i)) 63
  && stoks_ok (ci_rec i) (SEMI :: next).

(* a data section of instances of both kinds *)
Inductive inst : Set := ISimple (i : sinst) | IComplex (i : cinst).

Definition inst_s0 (i : inst) : seps := match i with ISimple s => si_s0 s | IComplex c => ci_s0 c end.
Definition inst_body (i : inst) : list byte := match i with ISimple s => sinst_body s | IComplex c => cinst_body c end.
Definition inst_text (i : inst) : list byte := seps_text (inst_s0 i) ++ HASH :: inst_body i.
Definition inst_ok (i : inst) (next : list byte) : bool :=
  match i with ISimple s => sinst_ok s next | IComplex c => cinst_ok c next end.
Definition inst_id (i : inst) : Z := match i with ISimple s => ival (si_ds s) | IComplex c => ival (ci_ds c) end.
Definition inst_summary (i : inst) : created :=
  match i with
  | ISimple s => sinst_summary s
  | IComplex c => CComplex (ival (ci_ds c)) (map cp_name (ci_parts c))
  end.

Fixpoint ginsts_ok (is : list inst) (tail : list byte) : bool :=
  match is with
  | [] => true
  | i :: r => inst_ok i (flat_map inst_text r ++ tail) && ginsts_ok r tail
  end.

(* the registry can make it: the keyword of a simple instance, the combination of parts of a complex one *)
Definition inst_accepted (creatable : list byte -> bool) (legal : list (list byte) -> option bool) (i : inst) : bool :=
  match i with
  | ISimple s => creatable (si_kw s)
  | IComplex c => match legal (map cp_name (ci_parts c)) with Some true => true | _ => false end
  end.
