(* C01 -- exchange files survive read-then-write with every value intact.
   What is PROVED here is the syntax-level core the reader and the writer must
   agree on, for all values with no bound on nesting or length:
   (1) the parameter grammar read by the reader inverts the writer's layout of
       values (scalars, `$`, `*`, typed SELECT values, aggregates nested to any depth);
   (2) an INTEGER is written as the decimal numeral that ReadInteger reads back;
   (3) a STRING in exchange form (quotes doubled) is scanned back byte for byte by
       GetLiteralStr and the scan stops right behind it;
   (4) reference renumbering commutes with reference extraction (used by C14/C10).
   The whole-file reader/writer is tied to these by the file-level correspondence
   of tools/c01.py; that part is testing, not proof (see evidence.unproved_clauses). *)
From Coq Require Import List ZArith NArith Bool.
From SC.gen Require Import SevTable.
From SC Require P21Str P21Sep P21Skip P21Skip_Proofs P21Pass1 P21Pass1_Proofs.
From SC Require Import P21Lex P21Lex_Proofs P21Syntax P21Syntax_Proofs.
Import ListNotations.
Local Open Scope Z_scope.

Theorem c01_param_write_read : forall p rest,
  parse_param (psize p) (print_param p ++ rest) = Some (p, rest).
Proof. exact parse_print. Qed.
Print Assumptions c01_param_write_read.

(* more fuel never hurts: any fuel >= the size of the value works *)
Theorem c01_param_write_read_fuel : forall fuel p rest,
  (psize p <= fuel)%nat -> parse_param fuel (print_param p ++ rest) = Some (p, rest).
Proof. exact parse_print_gen. Qed.
Print Assumptions c01_param_write_read_fuel.

(* writing is idempotent through a read: print (parse (print p)) = print p *)
Theorem c01_write_idempotent : forall p rest,
  match parse_param (psize p) (print_param p ++ rest) with
  | Some (q, _) => print_param q = print_param p
  | None => False
  end.
Proof. intros p rest. rewrite parse_print. reflexivity. Qed.
Print Assumptions c01_write_idempotent.

Theorem c01_integer_write_read : forall z d r sev,
  in_delims DELIMS d = true -> LONG_MIN <= z <= LONG_MAX ->
  read_integer (of_bytes (write_int z ++ d :: r)) sev (Some DELIMS) = (Some z, sev, mkS (d :: r) false false).
Proof. exact write_read_int. Qed.
Print Assumptions c01_integer_write_read.

Theorem c01_string_write_read : forall (cs : list byte) (d : byte) (tail : list byte),
  no_backslash cs -> d <> 39%N ->
  get_literal (39%N :: encode_str cs ++ 39%N :: d :: tail) = (39%N :: encode_str cs ++ [39%N], d :: tail, true).
Proof. exact get_literal_roundtrip. Qed.
Print Assumptions c01_string_write_read.

Theorem c01_refs_shift : forall k p, refs_of (shift_refs k p) = map (fun n => n + k) (refs_of p).
Proof. exact refs_shift. Qed.
Print Assumptions c01_refs_shift.

(* the end of a record as the first pass sees it (src/clstepcore/read_func.cc SkipInstance, coq/P21Skip.v):
   whatever strings (with any content: semicolons, slashes, doubled and page-escaped apostrophes), comments (with any
   text that lacks the closing mark) and other characters a record is made of, it ends at the first semicolon after
   it and nothing of what follows is consumed; a record that is never closed is never taken for a complete one *)
Theorem c01_record_ends_at_its_semicolon : forall ts rest,
  P21Skip.stoks_ok ts (P21Sep.SEMI :: rest) = true ->
  P21Skip.skip_inst (P21Skip.srender ts ++ P21Sep.SEMI :: rest) = Some rest.
Proof. exact P21Skip_Proofs.skip_instance_wellformed. Qed.
Print Assumptions c01_record_ends_at_its_semicolon.

Theorem c01_unterminated_record_reported : forall ts f,
  P21Skip.stoks_ok ts [] = true -> P21Skip.skip_instance f (P21Skip.srender ts) = None.
Proof. exact P21Skip_Proofs.skip_instance_unterminated. Qed.
Print Assumptions c01_unterminated_record_reported.

(* between two tokens (src/clstepcore/read_func.cc ReadTokenSeparator / ReadComment): any run of white space and comments -
   any number of them, of any length, with any text that lacks the closing mark - is skipped, and nothing of the token after it *)
Theorem c01_token_separator_skipped : forall s c rest,
  P21Sep.seps_ok s = true -> is_space c = false -> N.eqb c P21Sep.SLASH = false -> N.eqb c P21Skip.BSLASH = false ->
  P21Skip.token_separator (P21Sep.seps_text s ++ c :: rest) = c :: rest.
Proof. exact P21Skip_Proofs.token_separator_skips. Qed.
Print Assumptions c01_token_separator_skipped.

(* a print control directive (\N\ or \F\, Part 21 of 1994) between tokens is skipped and the token after it kept *)
Example c01_print_control_directive_skipped :
  P21Skip.token_separator [32; 92; 78; 92; 35; 49; 61]%N = [35; 49; 61]%N /\
  P21Skip.token_separator [92; 70; 92; 10; 47; 42; 120; 42; 47; 35; 50]%N = [35; 50]%N.
Proof. vm_compute. split; reflexivity. Qed.

(* the first pass as a whole (src/cleditor/STEPfile.cc ReadData1 / CreateInstance, coq/P21Pass1.v): every well-formed simple
   instance of a data section - in any layout: separators (white space, comments) before the number sign, between it and the
   digits, around the equals sign, a record made of strings, comments and other characters - whose keyword the registry
   can instantiate is created, in file order, under its own name and keyword, and the pass ends at ENDSEC.  Names are
   digits with a value from 1 to INT_MAX: the instance manager takes #0 for "no name yet" and stores the instance under the
   next free name (mgr_append), so a later instance of that name would be refused as a duplicate *)
Theorem c01_first_pass_creates_every_instance : forall creatable legal is st ws x,
  is <> [] ->
  P21Pass1.insts_ok is (P21Sep.seps_text st ++ [69; 78; 68; 83; 69; 67]%N ++ ws ++ P21Sep.SEMI :: x) = true ->
  P21Sep.seps_ok st = true -> forallb is_space ws = true ->
  forallb (fun i => creatable (P21Pass1.si_kw i)) is = true ->
  NoDup (map (fun i => P21Pass1.ival (P21Pass1.si_ds i)) is) ->
  P21Pass1.read_data1 creatable legal
    (P21Pass1_Proofs.section_text is (P21Sep.seps_text st ++ [69; 78; 68; 83; 69; 67]%N ++ ws ++ P21Sep.SEMI :: x))
  = (map P21Pass1.sinst_summary is, P21Pass1.Done).
Proof. exact P21Pass1_Proofs.read_data1_wellformed. Qed.
Print Assumptions c01_first_pass_creates_every_instance.

(* ... and so is every well-formed externally mapped instance  #n = ( PART_A(...) PART_B(...) );  whose combination of
   parts the schema allows, under its name and with the names of its parts in file order, mixed with simple instances in
   any order (CreateSubSuperInstance: the records of the parts are stepped over with their nested parentheses and strings) *)
Theorem c01_first_pass_creates_complex_instances_too : forall creatable legal is st ws x,
  is <> [] ->
  P21Pass1.ginsts_ok is (P21Sep.seps_text st ++ [69; 78; 68; 83; 69; 67]%N ++ ws ++ P21Sep.SEMI :: x) = true ->
  P21Sep.seps_ok st = true -> forallb is_space ws = true ->
  forallb (P21Pass1.inst_accepted creatable legal) is = true ->
  NoDup (map P21Pass1.inst_id is) ->
  P21Pass1.read_data1 creatable legal
    (P21Pass1_Proofs.gsection_text is (P21Sep.seps_text st ++ [69; 78; 68; 83; 69; 67]%N ++ ws ++ P21Sep.SEMI :: x))
  = (map P21Pass1.inst_summary is, P21Pass1.Done).
Proof. exact P21Pass1_Proofs.read_data1_mixed. Qed.
Print Assumptions c01_first_pass_creates_complex_instances_too.

(* the hypotheses are met by  #7=(A(1,('x)',$))B ());/**/#8=C(#7);  followed by ENDSEC; *)
Example c01_first_pass_example :
  let pa := P21Pass1.mkCP [65%N] [] [P21Pass1.BChr 49%N; P21Pass1.BChr 44%N; P21Pass1.BOpen; P21Pass1.BStr [P21Str.Plain 120%N; P21Str.Plain 41%N];
                                       P21Pass1.BChr 44%N; P21Pass1.BChr 36%N; P21Pass1.BClose; P21Pass1.BClose] [] in
  let pb := P21Pass1.mkCP [66%N] [32%N] [P21Pass1.BClose] [] in
  let c := P21Pass1.mkCI ([], []) ([], []) [55%N] ([], []) ([], []) [] [pa; pb] [] in
  let s := P21Pass1.mkSI ([([], [])], []) ([], []) [56%N] ([], []) ([], []) [67%N]
             [P21Skip.SChr 40%N; P21Skip.SChr 35%N; P21Skip.SChr 55%N; P21Skip.SChr 41%N] in
  let is := [P21Pass1.IComplex c; P21Pass1.ISimple s] in
  let tail := [69; 78; 68; 83; 69; 67; 59]%N in
  P21Pass1.ginsts_ok is tail = true /\
  P21Pass1.read_data1 (fun _ => true) (fun _ => Some true) (P21Pass1_Proofs.gsection_text is tail)
  = ([P21Pass1.CComplex 7 [[65%N]; [66%N]]; P21Pass1.CSimple 8 [67%N]], P21Pass1.Done).
Proof. vm_compute. split; reflexivity. Qed.

Example c01_skip_example :
  let ts := [P21Skip.SChr 65%N; P21Skip.SChr 40%N; P21Skip.SStr [P21Str.Plain 120%N; P21Str.Plain 59%N; P21Str.Apos; P21Str.Page 39%N];
             P21Skip.SChr 44%N; P21Skip.SCmt [32; 59; 32; 39; 42; 32]%N; P21Skip.SChr 32%N; P21Skip.SChr 35%N; P21Skip.SChr 49%N; P21Skip.SChr 41%N; P21Skip.SChr 32%N] in
  P21Skip.stoks_ok ts (P21Sep.SEMI :: [35; 50]%N) = true /\
  P21Skip.skip_inst (P21Skip.srender ts ++ P21Sep.SEMI :: [35; 50]%N) = Some [35; 50]%N.
Proof. vm_compute. split; reflexivity. Qed.

(* non-vacuity *)
Example c01_example :
  let p := PList [PTyped [76%N] (PStr [97%N]); PList [PInt 1; PRef 7]; PNull; PList []] in
  parse_param 20 (print_param p ++ [TComma]) = Some (p, [TComma]) /\
  write_int (-1200) = [45;49;50;48;48]%N /\
  get_literal [39;105;39;39;115;39;44]%N = ([39;105;39;39;115;39]%N, [44%N], true).
Proof. vm_compute. repeat split. Qed.
