(* C12 -- generators are deterministic functions of their input.
   Only statements closed by [exact]. *)
From Coq Require Import List NArith ZArith Permutation.
From SC Require Import gen.BoundRule GenBound GenBound_Proofs gen.HashConsts Hash Hash_Proofs.
Import ListNotations.

(* Whatever lies in memory under the union member (addresses, allocator state: the [world]),
   the text exp2cxx writes for an aggregate bound is the same: the branch structure of
   AGGRprint_bound(), regenerated from the source, reads u.integer for integer literals only. *)
Theorem c12_bound_is_function_of_schema_text : forall (w w' : world) (e : bexpr),
  print_bound w e = print_bound w' e.
Proof. exact print_bound_world_independent. Qed.
Print Assumptions c12_bound_is_function_of_schema_text.

Theorem c12_literal_bound_printed_as_value : forall w e,
  etype e = Type_Integer -> print_bound w e = PNumber (evalue e).
Proof. exact print_bound_literal. Qed.
Print Assumptions c12_literal_bound_printed_as_value.

(* ... and so is a negative literal, ARRAY [-2:2]: the parser reads it as the negation of a literal, and the branch that
   prints it (present in the regenerated rule) takes the operand's value *)
Theorem c12_negative_literal_bound_printed_as_value : forall w e v,
  etype e <> Type_Integer -> eneg e = Some v -> negated_literal_as_number = true -> print_bound w e = PNumber (- v)%Z.
Proof. exact print_bound_negated_literal. Qed.
Print Assumptions c12_negative_literal_bound_printed_as_value.

(* The order in which every tool walks a scope (DICTdo) is computed by Hash.v from the declared
   names alone; for any number of names, any hash function, every declared name is visited
   exactly once: the emission order is a permutation of the declarations, fixed by the names. *)
Theorem c12_dict_visits_each_declaration_once : forall (hv : key -> N) (ks : list key),
  NoDup (iterate (build hv ks)) /\ forall k, In k (iterate (build hv ks)) <-> In k ks.
Proof. exact iterate_build. Qed.
Print Assumptions c12_dict_visits_each_declaration_once.

Theorem c12_dict_order_is_permutation : forall (hv : key -> N) (ks : list key),
  NoDup ks -> Permutation (iterate (build hv ks)) ks.
Proof. exact iterate_perm. Qed.
Print Assumptions c12_dict_order_is_permutation.

Theorem c12_lookup_finds_exactly_declared : forall (hv : key -> N) ks k,
  find hv (build hv ks) k = true <-> In k ks.
Proof. exact find_build. Qed.
Print Assumptions c12_lookup_finds_exactly_declared.

(* non-vacuity: an identifier bound under two different worlds; a small dictionary *)
Example c12_example :
  let e := {| etype := Type_Identifier; etext := [109%N; 97%N; 120%N]; evalue := 0%Z; eneg := None |} in
  print_bound (fun _ => 273622848%Z) e = PText [109%N; 97%N; 120%N] /\
  print_bound (fun _ => (-549664960)%Z) e = PText [109%N; 97%N; 120%N] /\
  dict_order [[101%N]; [102%N]; [97%N; 98%N]] = [[97%N; 98%N]; [101%N]; [102%N]].
Proof. vm_compute. repeat split. Qed.
