From Coq Require Import List NArith Bool Lia Arith.
From SC Require Import gen.PPRule ExpPP ExpPP_Proofs ExpParse.
Import ListNotations.
Local Open Scope N_scope.

Definition body (t : ct) : list tok := print_ct t false OP_UNKNOWN.
Definition opd (o : N) (x : ct) : list tok := print_ct x true o.

Definition nohead (ts : list tok) : Prop := match ts with TOp _ :: _ => False | _ => True end.

Definition itemcond (o : N) (x : ct) : Prop := match x with CC o' _ => o' <> o | _ => True end.

Lemma chain_unknown : is_chain OP_UNKNOWN = false.
Proof. reflexivity. Qed.

Fixpoint sizes (xs : list ct) : nat := match xs with [] => O | x :: r => (size x + sizes r)%nat end.

Lemma size_CC o xs : size (CC o xs) = S (sizes xs).
Proof.
  reflexivity.
Qed.

Lemma size_pos t : (1 <= size t)%nat.
Proof. destruct t; cbn [size]; lia. Qed.

Lemma sizes_length xs : (length xs <= sizes xs)%nat.
Proof. induction xs as [|x r IH]; cbn [length sizes]; [lia|]. pose proof (size_pos x). lia. Qed.

Lemma sizes_in xs x : In x xs -> (size x <= sizes xs)%nat.
Proof.
  induction xs as [|y r IH]; [intros []|]. cbn [sizes]. intros [->|H]; [lia|]. specialize (IH H). lia.
Qed.

Lemma known_CC o xs : known (CC o xs) = forallb known xs.
Proof.
  cbn [known]. induction xs as [|x r IH]; [reflexivity|]. cbn [forallb]. rewrite <- IH. reflexivity.
Qed.

(* a parenthesised operand: an atom, or the body between parentheses *)
Lemma opd_form o x : known x = true -> itemcond o x ->
  opd o x = match x with CA a => [TAtom a] | _ => TLP :: body x ++ [TRP] end.
Proof.
  intros K I. destruct x as [a|o' y|o' l r|o' xs]; unfold opd, body.
  - reflexivity.
  - reflexivity.
  - cbn [known] in K. apply andb_prop in K. destruct K as [K _]. apply andb_prop in K. destruct K as [K _].
    cbn [print_ct]. rewrite K. reflexivity.
  - cbn [itemcond] in I. rewrite !print_ct_CC. cbv zeta. apply N.eqb_neq in I. rewrite I. reflexivity.
Qed.

Lemma join_flat_map f o x xs :
  join f o (x :: xs) = f x ++ flat_map (fun y => TOp o :: f y) xs.
Proof.
  revert x. induction xs as [|y r IH]; intros x.
  - cbn [join flat_map]. rewrite app_nil_r. reflexivity.
  - change (join f o (x :: y :: r)) with (f x ++ [TOp o] ++ join f o (y :: r)).
    rewrite IH. reflexivity.
Qed.

Section Level.
  Variable P : list tok -> option (ct * list tok).
  Variable f : nat.
  Hypothesis HP : forall t, (size t <= f)%nat -> wfct t = true -> known t = true ->
                  forall rest, nohead rest -> P (body t ++ rest) = Some (t, rest).

  Lemma operand_ok o x rest :
    (size x <= f)%nat -> wfct x = true -> known x = true -> itemcond o x ->
    operand P (opd o x ++ rest) = Some (x, rest).
  Proof.
    intros Hs W K Ic. rewrite (opd_form o x K Ic).
    destruct x as [a|o' y|o' l r|o' xs]; [reflexivity| | |];
      cbn [app operand]; rewrite <- app_assoc; cbn [app];
      rewrite (HP _ Hs W K (TRP :: rest) Logic.I); reflexivity.
  Qed.

  Definition good (o : N) (x : ct) : Prop :=
    (size x <= f)%nat /\ wfct x = true /\ known x = true /\ itemcond o x.

  Lemma oploop_ok o xs : forall n rest, (length xs < n)%nat -> Forall (good o) xs -> nohead rest ->
    oploop P n (flat_map (fun x => TOp o :: opd o x) xs ++ rest) = Some (map (pair o) xs, rest).
  Proof.
    induction xs as [|x r IH]; intros n rest Hn G Hr.
    - destruct n as [|n']; [cbn [length] in Hn; lia|]. cbn [flat_map app map oploop].
      destruct rest as [|[a|o'|o'| |] rest']; try reflexivity. destruct Hr.
    - destruct n as [|n']; [cbn [length] in Hn; lia|].
      inversion G as [|? ? [Hs [W [K Ic]]] G']; subst.
      cbn [flat_map app oploop]. rewrite <- app_assoc.
      rewrite (operand_ok o x _ Hs W K Ic).
      rewrite IH; [reflexivity| cbn [length] in Hn; lia | exact G' | exact Hr].
  Qed.

  Lemma body_step_operand n ts x0 r :
    operand P ts = Some (x0, r) ->
    body_step P n ts =
    match oploop P n r with
    | Some (l, r') => match assemble x0 l with Some t => Some (t, r') | None => None end
    | None => None
    end.
  Proof.
    intros H. unfold body_step. destruct ts as [|[a|o|o| |] ts']; cbv beta iota;
      try (cbn [operand] in H; discriminate H); rewrite H; reflexivity.
  Qed.

  Lemma item_ok_itemcond o x : item_ok o x = true -> itemcond o x.
  Proof.
    unfold item_ok. intros H. apply andb_prop in H. destruct H as [_ H].
    destruct x as [a|o' y|o' l r|o' xs]; cbn [itemcond]; try exact Logic.I.
    apply negb_true_iff in H. apply N.eqb_neq. exact H.
  Qed.

  Lemma item_ok_wf o x : item_ok o x = true -> wfct x = true.
  Proof. unfold item_ok. intros H. apply andb_prop in H. tauto. Qed.

  Lemma nonchain_itemcond o x : is_chain o = false -> wfct x = true -> itemcond o x.
  Proof.
    intros C W. destruct x as [a|o' y|o' l r|o' xs]; cbn [itemcond]; try exact Logic.I.
    rewrite wfct_CC in W. apply andb_prop in W. destruct W as [W _]. apply andb_prop in W. destruct W as [W _].
    intros ->. congruence.
  Qed.

  Lemma body_step_ok t n rest :
    (size t <= S f)%nat -> (size t <= n)%nat -> wfct t = true -> known t = true -> nohead rest ->
    body_step P n (body t ++ rest) = Some (t, rest).
  Proof.
    intros Hs Sn W K Hr. destruct t as [a|o x|o l r|o xs].
    - (* atom *)
      unfold body. cbn [print_ct app].
      rewrite (body_step_operand n _ (CA a) rest) by reflexivity.
      change rest with (flat_map (fun x => TOp 0 :: opd 0 x) [] ++ rest) at 1.
      rewrite oploop_ok; [reflexivity| cbn [size length] in *; lia | constructor | exact Hr].
    - (* unary *)
      unfold body. cbn [print_ct app]. cbn [size] in Hs. cbn [wfct] in W. cbn [known] in K.
      unfold body_step. change (print_ct x true OP_UNKNOWN) with (opd OP_UNKNOWN x).
      rewrite (operand_ok OP_UNKNOWN x rest); [reflexivity| lia | exact W | exact K |].
      apply nonchain_itemcond; [exact chain_unknown | exact W].
    - (* non-chain binary *)
      cbn [wfct] in W. apply andb_prop in W. destruct W as [W Wr]. apply andb_prop in W. destruct W as [C Wl].
      apply negb_true_iff in C.
      cbn [known] in K. apply andb_prop in K. destruct K as [K Kr]. apply andb_prop in K. destruct K as [_ Kl].
      cbn [size] in Hs, Sn.
      unfold body. cbn [print_ct andb]. change (print_ct l true o) with (opd o l). change (print_ct r true o) with (opd o r).
      rewrite <- app_assoc.
      rewrite (body_step_operand n _ l (([TOp o] ++ opd o r) ++ rest)).
      2:{ apply operand_ok; [lia| exact Wl | exact Kl | apply nonchain_itemcond; assumption]. }
      change (([TOp o] ++ opd o r) ++ rest) with ((TOp o :: opd o r) ++ rest).
      replace (TOp o :: opd o r) with (flat_map (fun x => TOp o :: opd o x) [r]) by (cbn [flat_map]; apply app_nil_r).
      rewrite oploop_ok.
      + cbn [map assemble forallb]. rewrite C. reflexivity.
      + cbn [length]. pose proof (size_pos l). pose proof (size_pos r). lia.
      + constructor; [|constructor]. repeat split; [lia| exact Wr | exact Kr | apply nonchain_itemcond; assumption].
      + exact Hr.
    - (* chain *)
      rewrite wfct_CC in W. apply andb_prop in W. destruct W as [W Ok]. apply andb_prop in W. destruct W as [C Len].
      apply N.leb_le in Len. rewrite known_CC in K. rewrite size_CC in Hs, Sn.
      destruct xs as [|x0 [|x1 more]]; [cbn [length] in Len; lia | cbn [length] in Len; lia |].
      assert (G : Forall (good o) (x0 :: x1 :: more)).
      { apply Forall_forall. intros x Hx. rewrite forallb_forall in Ok, K.
        pose proof (sizes_in _ _ Hx).
        repeat split; [lia| apply (item_ok_wf o); auto | auto | apply item_ok_itemcond; auto]. }
      unfold body. rewrite print_ct_CC. cbv zeta. cbn [andb].
      rewrite join_flat_map. change (fun y => TOp o :: print_ct y true o) with (fun y => TOp o :: opd o y).
      change (print_ct x0 true o) with (opd o x0).
      rewrite <- app_assoc.
      inversion G as [|? ? [Hs0 [W0 [K0 I0]]] G']; subst.
      rewrite (body_step_operand n _ x0 (flat_map (fun y => TOp o :: opd o y) (x1 :: more) ++ rest)).
      2:{ apply operand_ok; assumption. }
      rewrite oploop_ok; [| | exact G' | exact Hr].
      + cbn [map assemble].
        assert (E1 : forallb (fun p : N * ct => fst p =? o) (map (pair o) more) = true).
        { apply forallb_forall. intros p Hp. apply in_map_iff in Hp. destruct Hp as [y [<- _]]. cbn [fst]. apply N.eqb_refl. }
        assert (E2 : map snd (map (pair o) more) = more).
        { rewrite map_map. cbn [snd]. apply map_id. }
        rewrite E1, C, E2. reflexivity.
      + pose proof (sizes_length (x1 :: more)). cbn [sizes] in Hs, Sn. pose proof (size_pos x0). cbn [sizes] in H. lia.
  Qed.
End Level.

Lemma parse_body_ok : forall fuel t, (size t <= fuel)%nat -> wfct t = true -> known t = true ->
  forall rest, nohead rest -> parse_body fuel (body t ++ rest) = Some (t, rest).
Proof.
  induction fuel as [|f IH]; intros t Hs W K rest Hr.
  - pose proof (size_pos t). lia.
  - cbn [parse_body]. apply (body_step_ok (parse_body f) f IH); [exact Hs | exact Hs | exact W | exact K | exact Hr].
Qed.

(* tokens outnumber nodes: the fuel [parse] takes is enough *)
Lemma join_length o xs :
  Forall (fun t => wfct t = true -> forall paren prev, (size t <= length (print_ct t paren prev))%nat) xs ->
  forallb wfct xs = true -> xs <> [] ->
  (sizes xs + length xs <= S (length (join (fun x => print_ct x true o) o xs)))%nat.
Proof.
  induction xs as [|x r IHr]; intros F W Ne; [congruence|].
  inversion F as [|? ? Hx Hr]; subst. cbn [forallb] in W. apply andb_prop in W. destruct W as [Wx Wr].
  specialize (Hx Wx true o).
  destruct r as [|y r'].
  - cbn [sizes join length]. lia.
  - change (join (fun x => print_ct x true o) o (x :: y :: r')) with
        (print_ct x true o ++ [TOp o] ++ join (fun x => print_ct x true o) o (y :: r')).
    specialize (IHr Hr Wr ltac:(discriminate)).
    rewrite !app_length. cbn [length sizes] in *. lia.
Qed.

Lemma size_le_tokens t : wfct t = true -> forall paren prev, (size t <= length (print_ct t paren prev))%nat.
Proof.
  induction t as [a|o x IH|o l r IHl IHr|o xs IH] using ct_ind2; intros W paren prev.
  - cbn. lia.
  - cbn [wfct] in W. cbn [print_ct size]. specialize (IH W true OP_UNKNOWN).
    destruct paren; cbn [length]; rewrite ?app_length; cbn [length]; lia.
  - cbn [wfct] in W. apply andb_prop in W. destruct W as [W Wr]. apply andb_prop in W. destruct W as [_ Wl].
    cbn [print_ct size]. specialize (IHl Wl true o). specialize (IHr Wr true o).
    destruct (paren && negb (o =? OP_UNKNOWN)); cbn [length]; rewrite ?app_length; cbn [length]; rewrite ?app_length; cbn [length]; lia.
  - rewrite wfct_CC in W. apply andb_prop in W. destruct W as [W Ok]. apply andb_prop in W. destruct W as [_ Len].
    apply N.leb_le in Len.
    assert (Wx : forallb wfct xs = true).
    { apply forallb_forall. intros x Hx. rewrite forallb_forall in Ok. apply (item_ok_wf o). auto. }
    assert (Ne : xs <> []) by (destruct xs; [cbn [length] in Len; lia | discriminate]).
    pose proof (join_length o xs IH Wx Ne) as J.
    rewrite print_ct_CC, size_CC. cbv zeta.
    destruct (paren && negb (o =? prev)); cbn [length]; rewrite ?app_length; cbn [length]; lia.
Qed.

(* reading the printed text of a flattened tree gives the tree back *)
Theorem parse_print_ct t : wfct t = true -> known t = true -> parse (body t) = Some t.
Proof.
  intros W K. unfold parse.
  pose proof (parse_body_ok (S (length (body t))) t) as H.
  rewrite <- (app_nil_r (body t)) at 2.
  rewrite H; [reflexivity| | exact W | exact K | exact Logic.I].
  pose proof (size_le_tokens t W false OP_UNKNOWN). unfold body. lia.
Qed.

Lemma known_items o t : known t = true -> forallb known (items o t) = true.
Proof.
  intros K. destruct t as [a|o' y|o' l r|o' xs]; cbn [items forallb]; try (rewrite K; reflexivity).
  destruct (o' =? o); [rewrite known_CC in K; exact K | cbn [forallb]; rewrite K; reflexivity].
Qed.

Lemma known_flat e : ops_known e = true -> known (flat e) = true.
Proof.
  induction e as [a|o l IHl r IHr|o x IHx]; intros H; cbn [flat ops_known] in *.
  - reflexivity.
  - apply andb_prop in H. destruct H as [H Hr]. apply andb_prop in H. destruct H as [Ho Hl].
    destruct (is_chain o).
    + rewrite known_CC, forallb_app', !known_items by auto. reflexivity.
    + cbn [known]. rewrite Ho, IHl, IHr by assumption. reflexivity.
  - cbn [known]. auto.
Qed.

Theorem parse_print e : ops_known e = true -> parse (print_top e) = Some (flat e).
Proof.
  intros K. unfold print_top. rewrite print_flat.
  apply parse_print_ct; [apply (proj1 (flat_wf e)) | apply known_flat; exact K].
Qed.

(* the printed text determines the flattened tree: two expressions printed alike differ only in
   the nesting of a chain operator *)
Corollary print_injective e e' :
  ops_known e = true -> ops_known e' = true -> print_top e = print_top e' -> flat e = flat e'.
Proof.
  intros K K' E. pose proof (parse_print e K) as H. rewrite E, (parse_print e' K') in H. congruence.
Qed.
