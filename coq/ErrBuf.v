(* C06 / C20: the message buffer of -B (src/express/error.c, ERRORvreport_with_symbol).
   With -B every diagnostic that carries a line is formatted into one arena of ERROR_MAX_SPACE bytes
   (three bounded vsnprintf calls: prefix, message, newline; then one step over the terminator) and
   entered into heap[] under the next slot; the arena is printed and emptied when it is nearly full
   or holds ERROR_MAX_ERRORS messages.  Sizes, guards and prefix formats are regenerated
   (gen/ErrBuf.v).  No proofs here. *)
From Coq Require Import List ZArith Bool.
From SC Require Import gen.ErrArena.
Import ListNotations.
Local Open Scope Z_scope.

(* ERROR_string - ERROR_string_base, ERROR_with_lines *)
Record st := { used : Z; cnt : Z }.
Definition init : st := {| used := 0; cnt := 0 |}.

(* a diagnostic: length of the formatted message, of the file name (6 when there is none), digits of the line *)
Record msg := { m_len : Z; m_fn : Z; m_digits : Z }.
Definition msg_ok (m : msg) : bool :=
  (0 <=? m_len m) && (0 <=? m_fn m) && (1 <=? m_digits m) && (m_digits m <=? EB_LINE_DIGITS_MAX).

Definition prefix_len (m : msg) : Z := m_fn m + EB_PREFIX_FIXED + m_digits m + EB_CODE_DIGITS.
(* bytes the three writes and the terminator take when nothing is cut *)
Definition stored_len (m : msg) : Z := prefix_len m + m_len m + EB_TAIL.
(* what the code measures before it decides *)
Definition need (m : msg) : Z := m_len m + m_fn m + EB_NEED_MARGIN.

(* Direct: printed at once, not buffered.  Stored at slot cut: formatted at offset [at] of the arena and entered as
   heap[slot]; cut = one of the bounded writes did not have room for all of its text *)
Inductive what := Direct | Stored (at_ : Z) (slot : Z) (cut : bool).

Definition report (s : st) (m : msg) : st * what :=
  let s1 := if EB_MEASURES_FIRST && (EB_MAX_SPACE - used s <? need m) then init else s in
  if EB_MEASURES_FIRST && (EB_MAX_SPACE <? need m) then (s1, Direct) else
  let slot := cnt s1 + 1 in
  let room := EB_MAX_SPACE - used s1 in
  let cut := room <? stored_len m in
  let used' := Z.min EB_MAX_SPACE (used s1 + stored_len m) in
  let s2 := {| used := used'; cnt := slot |} in
  let s3 := if (EB_MAX_SPACE <? used' + EB_MAX_STRLEN) || (slot =? EB_MAX_ERRORS) then init else s2 in
  (s3, Stored (used s1) slot cut).

(* a run: the diagnostics of a file in the order they are raised *)
Fixpoint run (s : st) (ms : list msg) : st * list what :=
  match ms with
  | [] => (s, [])
  | m :: r => let '(s', w) := report s m in let '(s'', ws) := run s' r in (s'', w :: ws)
  end.

(* what holds between two reports *)
Definition inv (s : st) : bool :=
  (0 <=? used s) && (used s + EB_MAX_STRLEN <=? EB_MAX_SPACE) && (0 <=? cnt s) && (cnt s <? EB_MAX_ERRORS).

(* nothing was cut, the slot exists, the text lies inside the arena *)
Definition what_ok (m : msg) (w : what) : bool :=
  match w with
  | Direct => true
  | Stored a slot cut => negb cut && (1 <=? slot) && (slot <? EB_HEAP_SLOTS) && (0 <=? a) && (a + stored_len m <=? EB_MAX_SPACE)
  end.

(* what memory safety needs between two reports (whether or not the length is measured first) *)
Definition inv_mem (s : st) : bool :=
  (0 <=? used s) && (used s <=? EB_MAX_SPACE) && (0 <=? cnt s) && (cnt s <? EB_MAX_ERRORS).
(* the bounded writes start inside the arena (vsnprintf is given what is left of it), the heap entry is inside heap[] *)
Definition what_mem (w : what) : bool :=
  match w with
  | Direct => true
  | Stored a slot _ => (0 <=? a) && (a <=? EB_MAX_SPACE) && (1 <=? slot) && (slot <? EB_HEAP_SLOTS)
  end.
