(* The diagnostics machinery of the EXPRESS front end (C04, C20):
   src/express/error.c (ERRORreport, ERRORreport_with_symbol, ERRORset_warning,
   ERRORset_all_warnings, ERRORis_enabled) and the driver src/express/fedex.c
   (option handling, parse -> resolve -> backend with a gate after each phase).
   The error table is regenerated from the source (gen/ErrTable.v).  No proofs here. *)
From Coq Require Import List ZArith Bool.
From SC.gen Require Import ErrTable.
Import ListNotations.
Local Open Scope Z_scope.

Definition entry (code : Z) : errent :=
  nth (Z.to_nat code) err_table {| e_sev := 1; e_class := 0; e_nargs := 0 |}.

(* per-code override flag: true = suppressed *)
Definition overrides := list bool.

Definition ov_init : overrides := map (fun _ => false) err_table.

(* ERRORset_all_warnings(b) *)
Definition set_all (ov : overrides) (b : bool) : overrides :=
  map (fun eo => if e_sev (fst eo) <=? 0 then b else snd eo) (combine err_table ov).

(* ERRORset_warning(name, b): entries with severity <= WARNING whose class name matches *)
Definition set_class (ov : overrides) (cls : Z) (b : bool) : overrides :=
  map (fun eo => if (e_sev (fst eo) <=? 0) && (0 <? e_class (fst eo)) && Z.eqb (e_class (fst eo)) cls then b else snd eo)
      (combine err_table ov).

Definition class_known (cls : Z) : bool :=
  existsb (fun e => (e_sev e <=? 0) && (0 <? e_class e) && Z.eqb (e_class e) cls) err_table.

(* fedex.c option loop: (is_w, class) in command-line order *)
Definition apply_option (ov : overrides) (o : bool * Z) : overrides :=
  let '(is_w, cls) := o in
  set_class ov cls (if OPT_SUPPRESS_IS_I then negb is_w else is_w).

Definition process_options (opts : list (bool * Z)) : overrides :=
  if DEFAULT_BEFORE_OPTIONS then fold_left apply_option opts (set_all ov_init DEFAULT_SUPPRESS)
  else match opts with
       | [] => set_all ov_init DEFAULT_SUPPRESS
       | _ => fold_left apply_option opts ov_init
       end.

Definition enabled (ov : overrides) (code : Z) : bool := negb (nth (Z.to_nat code) ov false).

(* one printed diagnostic: is it an ERROR line, its code, the line it is attributed to *)
Record diag := { d_error : bool; d_code : Z; d_line : Z }.

Inductive outcome := Running | Exited (status : Z) | Aborted.

Record est := { printed : list diag; occurred : bool; fate : outcome }.

Definition est0 : est := {| printed := []; occurred := false; fate := Running |}.

(* ERRORreport / ERRORreport_with_symbol, unbuffered *)
Definition report (ov : overrides) (s : est) (ev : Z * Z) : est :=
  let '(code, line) := ev in
  match fate s with
  | Running =>
      if Z.eqb code SUBORDINATE_FAILED || negb (enabled ov code) then s
      else
        let e := entry code in
        let is_err := 1 <=? e_sev e in
        let s1 := {| printed := printed s ++ [ {| d_error := is_err; d_code := code; d_line := line |} ];
                     occurred := occurred s || is_err; fate := Running |} in
        if 3 <=? e_sev e then {| printed := printed s1; occurred := occurred s1; fate := Aborted |}
        else if 2 <=? e_sev e then {| printed := printed s1; occurred := occurred s1; fate := Exited 1 |}
        else s1
  | _ => s
  end.

Definition run_phase (ov : overrides) (s : est) (evs : list (Z * Z)) : est := fold_left (report ov) evs s.

(* main(): parse; gate; resolve; gate; backend; gate; succeed.  The backend's own
   output (generated files, pretty-printed schema) exists iff it ran. *)
Record verdict := { v_state : est; v_backend_ran : bool; v_status : Z }.

Definition gate (s : est) : bool := match fate s with Running => occurred s | _ => true end.

Definition status_of (s : est) : Z :=
  match fate s with
  | Exited n => n
  | Aborted => 134
  | Running => if occurred s then 1 else 0
  end.

Definition main (ov : overrides) (parse resolve backend : list (Z * Z)) : verdict :=
  let s1 := run_phase ov est0 parse in
  if gate s1 then {| v_state := s1; v_backend_ran := false; v_status := status_of s1 |}
  else
    let s2 := run_phase ov s1 resolve in
    if gate s2 then {| v_state := s2; v_backend_ran := false; v_status := status_of s2 |}
    else
      let s3 := run_phase ov s2 backend in
      {| v_state := s3; v_backend_ran := true; v_status := status_of s3 |}.

(* ---------------- sub/supertype cycle check (resolve.c) ---------------- *)
(* ENTITY_check_subsuper_cyclicity(e, enew) with the shared search mark; the graph
   maps an entity to the list of its subtypes in list order.  Returns (found, marks). *)
Definition graph := list (Z * list Z).
Fixpoint gfind (g : graph) (k : Z) : list Z :=
  match g with [] => [] | (k', v) :: r => if Z.eqb k k' then v else gfind r k end.
Definition zin (x : Z) (l : list Z) : bool := existsb (Z.eqb x) l.

Fixpoint cyc_loop (fuel : nat) (g : graph) (e : Z) (subs : list Z) (marks : list Z) : option (bool * list Z) :=
  match fuel with
  | O => None                                              (* out of fuel: no answer *)
  | S f =>
      match subs with
      | [] => Some (false, marks)
      | sub :: rest =>
          if Z.eqb e sub then Some (true, marks)
          else if zin sub marks then cyc_loop f g e rest marks   (* seen before: "continue" *)
          else
            match cyc_loop f g e (gfind g sub) (sub :: marks) with
            | None => None
            | Some (true, marks') => Some (true, marks')
            | Some (false, marks') => cyc_loop f g e rest marks'
            end
      end
  end.

Definition gedges (g : graph) : nat := fold_left (fun n kv => (n + length (snd kv))%nat) g O.

Definition cyc_from_opt (g : graph) (e : Z) : option bool :=
  option_map fst (cyc_loop (S ((length g + 1) * (gedges g + length g + 1))) g e (gfind g e) []).

Definition cyc_from (g : graph) (e : Z) : bool :=
  match cyc_from_opt g e with Some b => b | None => false end.

(* the check as run by SCOPEresolve_subsupers: once from every entity *)
Definition cyc_any (g : graph) : bool := existsb (fun kv => cyc_from g (fst kv)) g.

(* a call ERRORreport*( code, ..., a1 .. ak ) hands k arguments to the conversions of the code's format *)
Definition site_ok (s : Z * Z) : bool := (e_nargs (entry (fst s)) =? snd s) && (0 <=? fst s) && (fst s <? Z.of_nat (length err_table)).
