(* C10 -- the lazy loader sees the same file as the eager reader.
   Proved here, for every instance list (unique ids) with arbitrary reference lists
   (cycles, self references, multiplicities): the reverse table built by
   addLazyInstance is the exact transpose of the forward table (as multisets), the
   forward table holds precisely each instance's references, and the worklist of
   instanceDependencies terminates and returns exactly the reflexive-free
   transitive closure of the forward table.  That the index lists the ids/keywords
   the eager reader loads, and that loading in any order serialises identically,
   is established by the correspondence of tools/c10.py (testing). *)
From Coq Require Import List ZArith Bool.
From SC Require Import Lazy Lazy_Proofs.
Import ListNotations.
Local Open Scope Z_scope.

Theorem c10_rev_is_transpose : forall insts, NoDup (map fst insts) ->
  forall x y, cnt y (tfind (snd (build insts)) x) = cnt x (tfind (fst (build insts)) y).
Proof. intros insts H. apply (build_spec insts H). Qed.
Print Assumptions c10_rev_is_transpose.

Theorem c10_fwd_is_exact : forall insts, NoDup (map fst insts) ->
  (forall y refs, In (y, refs) insts -> tfind (fst (build insts)) y = refs) /\
  (forall y, ~ In y (map fst insts) -> tfind (fst (build insts)) y = []).
Proof. intros insts H. apply (build_spec insts H). Qed.
Print Assumptions c10_fwd_is_exact.

Theorem c10_deps_terminates : forall fwd id, deps fwd id <> None.
Proof. exact deps_total. Qed.
Print Assumptions c10_deps_terminates.

Theorem c10_deps_is_transitive_closure : forall fwd id c,
  deps fwd id = Some c -> forall y, In y c <-> reach fwd id y.
Proof. exact deps_correct. Qed.
Print Assumptions c10_deps_is_transitive_closure.

Example c10_example :
  let insts := [(1, [2; 2]); (2, [3]); (3, [1]); (4, []); (5, [5; 1])] in
  build insts = ([(1, [2; 2]); (2, [3]); (3, [1]); (5, [5; 1])],
                 [(2, [1; 1]); (3, [2]); (1, [3; 5]); (5, [5])]) /\
  deps (fst (build insts)) 4 = Some [] /\
  (exists c, deps (fst (build insts)) 5 = Some c /\ length c = 4%nat) /\
  (exists c, deps (fst (build insts)) 1 = Some c /\ In 1 c /\ ~ In 5 c).
Proof.
  vm_compute. repeat split; try (eexists; split; [reflexivity|]); cbn; try reflexivity.
  split; [auto|]. intros [H|[H|[H|[]]]]; discriminate.
Qed.
