(* C10 -- the lazy loader sees the same file as the eager reader.
   Proved here, for every instance list (unique ids) with arbitrary reference lists
   (cycles, self references, multiplicities): the reverse table built by
   addLazyInstance is the exact transpose of the forward table (as multisets), the
   forward table holds precisely each instance's references, and the worklist of
   instanceDependencies terminates and returns exactly the reflexive-free
   transitive closure of the forward table.
   And for the scan that feeds these tables (coq/P21Scan.v: sectionReader.cc,
   lazyP21DataSectionReader.cc), for every data section of well-formed instances in any
   layout (white space, any number of comments with any text, strings with any content,
   instance names written with white space and leading zeros, nested parentheses,
   externally mapped records): every instance is found, in file order, under its own
   name and keyword and with exactly the instance names its record mentions outside
   strings and comments; the scan stops at ENDSEC; and the forward table built from the
   text maps each instance to those names.
   That the keywords are the ones the eager reader loads, and that loading in any order
   serialises identically, is established by the correspondence of tools/c10.py (testing). *)
From Coq Require Import List ZArith Bool NArith.
From SC Require Import Lazy Lazy_Proofs P21Lex P21Str P21Scan P21Scan_Proofs.
Import ListNotations.
Local Open Scope Z_scope.

Theorem c10_rev_is_transpose : forall insts, NoDup (map fst insts) ->
  forall x y, cnt y (tfind (snd (build insts)) x) = cnt x (tfind (fst (build insts)) y).
Proof. intros insts H. apply (build_spec insts H). Qed.
Print Assumptions c10_rev_is_transpose.

Theorem c10_fwd_is_exact : forall insts, NoDup (map fst insts) ->
  (forall y refs, In (y, refs) insts -> tfind (fst (build insts)) y = refs) /\
  (forall y, ~ In y (map fst insts) -> tfind (fst (build insts)) y = []).
Proof. intros insts H. apply (build_spec insts H). Qed.
Print Assumptions c10_fwd_is_exact.

Theorem c10_deps_terminates : forall fwd id, deps fwd id <> None.
Proof. exact deps_total. Qed.
Print Assumptions c10_deps_terminates.

Theorem c10_deps_is_transitive_closure : forall fwd id c,
  deps fwd id = Some c -> forall y, In y c <-> reach fwd id y.
Proof. exact deps_correct. Qed.
Print Assumptions c10_deps_is_transitive_closure.

Example c10_example :
  let insts := [(1, [2; 2]); (2, [3]); (3, [1]); (4, []); (5, [5; 1])] in
  build insts = ([(1, [2; 2]); (2, [3]); (3, [1]); (5, [5; 1])],
                 [(2, [1; 1]); (3, [2]); (1, [3; 5]); (5, [5])]) /\
  deps (fst (build insts)) 4 = Some [] /\
  (exists c, deps (fst (build insts)) 5 = Some c /\ length c = 4%nat) /\
  (exists c, deps (fst (build insts)) 1 = Some c /\ In 1 c /\ ~ In 5 c).
Proof.
  vm_compute. repeat split; try (eexists; split; [reflexivity|]); cbn; try reflexivity.
  split; [auto|]. intros [H|[H|[H|[]]]]; discriminate.
Qed.

(* ---- the scan ---- *)
Theorem c10_comment_ends_at_first_close : forall txt k,
  no_close txt = true -> comment_end (txt ++ STAR :: SLASH :: k) = Some k.
Proof. exact comment_end_closes. Qed.
Print Assumptions c10_comment_ends_at_first_close.

Theorem c10_instance_found : forall p rest, pinst_ok p = true ->
  next_instance (pinst_text p ++ rest) = NInst (dval (pi_ds p)) (pi_kw p) (refs_of (pi_rec p)) rest.
Proof. exact next_instance_wellformed. Qed.
Print Assumptions c10_instance_found.

Theorem c10_section_indexed : forall ps s ws x,
  forallb pinst_ok ps = true -> seps_ok s = true -> forallb is_space ws = true ->
  let tail := seps_text s ++ ENDSEC ++ ws ++ SEMI :: x in
  scan_section (flat_map pinst_text ps ++ tail) = (map pinst_summary ps, false, tail) /\ at_endsec tail = true.
Proof. exact data_section_indexed. Qed.
Print Assumptions c10_section_indexed.

Theorem c10_forward_table_from_text : forall ps s ws x,
  forallb pinst_ok ps = true -> seps_ok s = true -> forallb is_space ws = true ->
  NoDup (map (fun p => dval (pi_ds p)) ps) ->
  forall p, In p ps ->
    tfind (fst (tables_of_text (flat_map pinst_text ps ++ seps_text s ++ ENDSEC ++ ws ++ SEMI :: x))) (Z.of_N (dval (pi_ds p)))
    = map Z.of_N (refs_of (pi_rec p)).
Proof. exact forward_table_from_text. Qed.
Print Assumptions c10_forward_table_from_text.

(* the premises are met by records that use every feature:
     / * a * / #007 / * * * / = NODE ('x#9;(' , # 3 , (#3,#0012) ) / * / c * / ;
     #12=(A(1)B('it''s',#7));                                                        *)
Example c10_scan_example :
  let sp := 32%N in
  let cm (t : list N) : list byte * list byte := ([sp], t) in
  let p1 := mkPI ([cm [97%N; 32%N; 42%N]], [sp]) [] [48; 48; 55]%N ([cm [42%N]], [sp]) [sp] [78; 79; 68; 69]%N
                 [KPlain sp; KOpen; KStr [Plain 120%N; Plain 35%N; Plain 57%N; Plain 59%N; Plain 40%N]; KPlain sp; KPlain 44%N;
                  KRef [sp] [51%N]; KPlain sp; KPlain 44%N; KOpen; KRef [] [51%N]; KPlain 44%N; KRef [] [48; 48; 49; 50]%N; KClose; KPlain sp]
                 ([cm [47%N; 32%N; 99%N; 32%N]], []) in
  let p2 := mkPI ([], [10%N]) [] [49; 50]%N ([], []) [] []
                 [KOpen; KPlain 65%N; KOpen; KPlain 49%N; KClose; KPlain 66%N; KOpen; KStr [Plain 105%N; Plain 116%N; Apos; Plain 115%N]; KPlain 44%N; KRef [] [55%N]; KClose]
                 ([], []) in
  forallb pinst_ok [p1; p2] = true /\
  fst (fst (scan_section (flat_map pinst_text [p1; p2] ++ [10; 69; 78; 68; 83; 69; 67; 59; 10]%N)))
    = [(7%N, [78; 79; 68; 69]%N, [3; 3; 12]%N); (12%N, [], [7%N])].
Proof. vm_compute. split; reflexivity. Qed.
