(* Extraction of the executable models for the correspondence checks.
   Only ExtrOcamlBasic is used: bool, option, list, prod, unit, sumbool map to
   OCaml's; nat, positive, N, Z stay the extracted inductive types.
   No Extract Constant / other Extract Inductive directives.
   Run from /verif/ocaml/gen (files land in the current directory). *)
From Coq Require Import ExtrOcamlBasic.
From SC Require InstMgr P21Lex P21Enum P21Str P21Bin P21Sep P21Scan P21Skip P21Pass1 P21Syntax FileSev RecRead Append WorkSession Lazy PyAggr ExpErr GenFiles Hash GenBound PyGen Complex CxxAttrs ExpPP ExpParse ExpStr SuperIter ExprBuf ErrBuf.
From SC.gen Require NullTable WsLetters ErrTable ScannerRule HashConsts BoundRule PPRule StrSplit ScanRule ExprBound.
From SC.gen Require ErrArena.
Extraction Language OCaml.
Separate Extraction InstMgr P21Lex P21Enum P21Str P21Bin P21Sep P21Scan P21Skip P21Pass1 P21Syntax FileSev RecRead NullTable Append WorkSession WsLetters Lazy PyAggr ExpErr ErrTable GenFiles ScannerRule Hash HashConsts GenBound BoundRule PyGen Complex CxxAttrs ExpPP ExpParse ExpStr StrSplit ScanRule SuperIter ExprBuf ExprBound ErrBuf ErrArena.
