(* Appending an exchange file to a session (C14):
   STEPfile::SetFileIdIncrement / IncrementFileId (src/cleditor/STEPfile.inline.cc)
   with the constants regenerated from the source, and the population-level effect
   of threading addFileId through every reference read.  No proofs here. *)
From Coq Require Import List ZArith Bool NArith.
From SC.gen Require Import Consts.
From SC Require Import P21Lex P21Syntax.
Import ListNotations.
Local Open Scope Z_scope.

(* (int)((ceil((max + ADD) / DIV) + PLUS) * MUL), 0 when MaxFileId() < 0 *)
Definition incr (m : Z) : Z :=
  if m <? 0 then 0
  else ((m + INCR_ADD + (INCR_DIV - 1)) / INCR_DIV + INCR_PLUS) * INCR_MUL.

Record pinst := { p_id : Z; p_body : list (list byte * list param) }.

Definition shift_inst (k : Z) (i : pinst) : pinst :=
  {| p_id := p_id i + k;
     p_body := map (fun kp => (fst kp, map (shift_refs k) (snd kp))) (p_body i) |}.

Definition max_id (P : list pinst) : Z := fold_left Z.max (map p_id P) (-1).

Definition append_pop (A B : list pinst) : list pinst :=
  A ++ map (shift_inst (incr (max_id A))) B.

Definition lookup (P : list pinst) (id : Z) : option pinst :=
  find (fun i => Z.eqb (p_id i) id) P.

Definition inst_refs (i : pinst) : list Z :=
  flat_map (fun kp => flat_map refs_of (snd kp)) (p_body i).
