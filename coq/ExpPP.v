(* C07: how exppp parenthesises expressions (src/exppp/pretty_expr.c EXPR__out / EXPRop__out /
   EXPRop2__out / EXPRop1_out), with the per-operator treatment regenerated from the source
   (gen/PPRule.v).  Binary operators of kind Chain are printed without parentheses directly
   under the same operator; everything else is parenthesised.  No proofs here. *)
From Coq Require Import List NArith Bool.
From SC Require Import gen.PPRule.
Import ListNotations.
Local Open Scope N_scope.

Inductive expr : Set :=
| Atom (a : list N)
| Bin (o : N) (l r : expr)
| Un (o : N) (x : expr).

Inductive tok : Set := TAtom (a : list N) | TOp (o : N) | TUn (o : N) | TLP | TRP.

Definition is_chain (o : N) : bool := match op_kind o with Chain => true | _ => false end.

(* EXPR__out(e, paren, previous_op) for atoms, padded binary operators and unary operators *)
Fixpoint print (e : expr) (paren : bool) (prev : N) : list tok :=
  match e with
  | Atom a => [TAtom a]
  | Bin o l r =>
    (* operators routed through EXPRop2_out are told previous_op = OP_UNKNOWN *)
    let prev' := if is_chain o then prev else OP_UNKNOWN in
    let inner := print l true o ++ [TOp o] ++ print r true o in
    if paren && negb (o =? prev') then TLP :: inner ++ [TRP] else inner
  | Un o x =>
    let inner := TUn o :: print x true OP_UNKNOWN in
    if paren then TLP :: inner ++ [TRP] else inner
  end.

Definition print_top (e : expr) : list tok := print e false OP_UNKNOWN.

(* ---- the tree with nests of one chain operator flattened: what the printed text determines ---- *)
Inductive ct : Set :=
| CA (a : list N)
| CU (o : N) (x : ct)
| CB (o : N) (l r : ct)            (* a non-chain binary operator *)
| CC (o : N) (xs : list ct).       (* a chain operator applied to >= 2 operands, none of them a CC of the same operator *)

Definition items (o : N) (t : ct) : list ct :=
  match t with
  | CC o' xs => if o' =? o then xs else [t]
  | _ => [t]
  end.

Fixpoint flat (e : expr) : ct :=
  match e with
  | Atom a => CA a
  | Un o x => CU o (flat x)
  | Bin o l r => if is_chain o then CC o (items o (flat l) ++ items o (flat r)) else CB o (flat l) (flat r)
  end.

(* printing a flattened tree *)
Fixpoint print_ct (t : ct) (paren : bool) (prev : N) : list tok :=
  match t with
  | CA a => [TAtom a]
  | CU o x =>
    let inner := TUn o :: print_ct x true OP_UNKNOWN in
    if paren then TLP :: inner ++ [TRP] else inner
  | CB o l r =>
    let inner := print_ct l true o ++ [TOp o] ++ print_ct r true o in
    if paren && negb (o =? OP_UNKNOWN) then TLP :: inner ++ [TRP] else inner
  | CC o xs =>
    let inner :=
        (fix go (xs : list ct) : list tok :=
           match xs with
           | [] => []
           | [x] => print_ct x true o
           | x :: r => print_ct x true o ++ [TOp o] ++ go r
           end) xs in
    if paren && negb (o =? prev) then TLP :: inner ++ [TRP] else inner
  end.

(* the tree a left-associative parser builds from a flattened tree *)
Fixpoint unflat (t : ct) : expr :=
  match t with
  | CA a => Atom a
  | CU o x => Un o (unflat x)
  | CB o l r => Bin o (unflat l) (unflat r)
  | CC o xs =>
    match map unflat xs with
    | [] => Atom []
    | x :: rest => fold_left (fun acc y => Bin o acc y) rest x
    end
  end.
