(* C02: the order in which an instance of a generated C++ class exposes its attributes
   (src/express/ordered_attrs.cc populateAttrList() + dedupList(), used by exp2cxx to lay out
   the attribute list of every entity class): depth-first over the supertypes in declaration
   order, then the entity's own attributes, then all but the first occurrence of each
   (attribute, creator) pair removed.  Explicit attributes only.  No proofs here. *)
From Coq Require Import List NArith Bool.
From SC Require Import PyGen.
Import ListNotations.

(* populateAttrList() *)
Fixpoint populate (fuel : nat) (G : schema) (i : N) : list attr :=
  match fuel with
  | O => []
  | S f =>
    match lookup G i with
    | None => []
    | Some e => flat_map (populate f G) (e_supers e) ++ e_attrs e
    end
  end.

(* orderedAttrsInit(): populate, dedup; explicit attributes are the ones that appear in Part 21 *)
Definition cxx_order (fuel : nat) (G : schema) (e : ent) : list attr :=
  dedup (filter is_explicit (flat_map (populate fuel G) (e_supers e) ++ e_attrs e)).
