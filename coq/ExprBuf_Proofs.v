From Coq Require Import List Arith Bool Lia.
From SC Require Import gen.ExprBound ExprBuf.
Import ListNotations.

(* ---- what the regenerated constants have to satisfy: each is decided by computation ---- *)
Ltac by_leb := apply Nat.leb_le; vm_compute; reflexivity.
Lemma k_num : NUM_MAX <= B_SLACK. Proof. by_leb. Qed.
Lemma k_bin : BIN_HEAD <= B_SLACK. Proof. by_leb. Qed.
Lemma k_quote : QUOTE_EXTRA <= B_SLACK. Proof. by_leb. Qed.
Lemma k_plain : PLAIN_EXTRA <= B_SLACK. Proof. by_leb. Qed.
Lemma k_unknown : UNKNOWN_KIND_MAX <= B_SLACK. Proof. by_leb. Qed.
Lemma k_query : QUERY_HEAD + QUERY_MID + QUERY_TAIL <= B_SLACK. Proof. by_leb. Qed.
Lemma k_fun : FUN_HEAD + FUN_TAIL <= B_SLACK. Proof. by_leb. Qed.
Lemma k_fun_sep : FUN_SEP <= B_FUN_ARG. Proof. by_leb. Qed.
Lemma k_neg : NEG_HEAD <= B_SLACK + B_SLACK. Proof. by_leb. Qed.
Lemma k_op_known : OP_SEP_KNOWN <= B_SLACK. Proof. by_leb. Qed.
Lemma k_op_unknown : OP_SEP_UNKNOWN <= B_SLACK. Proof. by_leb. Qed.
Lemma k_agg : AGG_HEAD + AGG_TAIL <= B_SLACK. Proof. by_leb. Qed.
Lemma k_agg_sep : AGG_SEP <= B_LIST_ELEM. Proof. by_leb. Qed.
Lemma k_agg_sep_repeat : AGG_SEP_REPEAT <= B_LIST_ELEM. Proof. by_leb. Qed.
Lemma k_oneof : ONEOF_HEAD + ONEOF_TAIL <= B_SLACK. Proof. by_leb. Qed.
Lemma k_oneof_sep : ONEOF_SEP <= B_LIST_ELEM. Proof. by_leb. Qed.
Lemma k_terminator : 1 <= B_TERMINATOR. Proof. by_leb. Qed.

(* ---- induction over expressions, lists of operands included ---- *)
Section ex_ind'.
  Variable P : ex -> Prop.
  Hypothesis HNum : forall len, P (XNum len).
  Hypothesis HBin : forall len, P (XBinary len).
  Hypothesis HName : forall len q, P (XName len q).
  Hypothesis HUnk : P XUnknown.
  Hypothesis HQuery : forall v a b, P a -> P b -> P (XQuery v a b).
  Hypothesis HFun : forall n args, Forall P args -> P (XFuncall n args).
  Hypothesis HNeg : forall a, P a -> P (XNegate a).
  Hypothesis HOp1 : forall k a, P a -> P (XOp k a None).
  Hypothesis HOp2 : forall k a b, P a -> P b -> P (XOp k a (Some b)).
  Hypothesis HAgg : forall elems, Forall (fun p => P (snd p)) elems -> P (XAggregate elems).
  Hypothesis HOneof : forall elems, Forall P elems -> P (XOneof elems).

  Fixpoint ex_ind' (e : ex) : P e :=
    match e with
    | XNum len => HNum len
    | XBinary len => HBin len
    | XName len q => HName len q
    | XUnknown => HUnk
    | XQuery v a b => HQuery v a b (ex_ind' a) (ex_ind' b)
    | XFuncall n args =>
      HFun n args ((fix go (l : list ex) : Forall P l :=
                      match l with [] => Forall_nil _ | x :: r => Forall_cons x (ex_ind' x) (go r) end) args)
    | XNegate a => HNeg a (ex_ind' a)
    | XOp k a None => HOp1 k a (ex_ind' a)
    | XOp k a (Some b) => HOp2 k a b (ex_ind' a) (ex_ind' b)
    | XAggregate elems =>
      HAgg elems ((fix go (l : list (bool * ex)) : Forall (fun p => P (snd p)) l :=
                     match l with [] => Forall_nil _ | x :: r => Forall_cons x (ex_ind' (snd x)) (go r) end) elems)
    | XOneof elems =>
      HOneof elems ((fix go (l : list ex) : Forall P l :=
                       match l with [] => Forall_nil _ | x :: r => Forall_cons x (ex_ind' x) (go r) end) elems)
    end.
End ex_ind'.

Lemma list_sum_cons a l : list_sum (a :: l) = a + list_sum l.
Proof. reflexivity. Qed.

(* texts joined by a separator, against a bound that counts at least the separator for every text *)
Lemma joined_le sep per (f g : ex -> nat) (l : list ex) :
  sep <= per -> Forall (fun x => f x <= g x) l ->
  joined sep (map f l) <= list_sum (map (fun x => per + g x) l).
Proof.
  intros Hs H. induction H as [|x r Hx Hr IH]; [cbn; lia|].
  cbn beta in Hx. cbn [map joined]. rewrite list_sum_cons. destruct (map f r) as [|y t] eqn:E.
  - lia.
  - lia.
Qed.

Lemma agg_rest_le (f g : ex -> nat) (l : list (bool * ex)) :
  Forall (fun p => f (snd p) <= g (snd p)) l ->
  agg_rest (map (fun p => (fst p, f (snd p))) l) <= list_sum (map (fun p => B_LIST_ELEM + g (snd p)) l).
Proof.
  intros H. induction H as [|[r x] t Hx Ht IH]; [cbn; lia|].
  cbn beta in Hx. cbn [map agg_rest fst snd] in *. rewrite list_sum_cons.
  assert (agg_sep r <= B_LIST_ELEM) by (destruct r; [apply k_agg_sep_repeat | apply k_agg_sep]). lia.
Qed.

Lemma agg_joined_le (f g : ex -> nat) (l : list (bool * ex)) :
  Forall (fun p => f (snd p) <= g (snd p)) l ->
  agg_joined (map (fun p => (fst p, f (snd p))) l) <= list_sum (map (fun p => B_LIST_ELEM + g (snd p)) l).
Proof.
  intros H. destruct H as [|[r x] t Hx Ht]; [cbn; lia|].
  cbn beta in Hx. cbn [map agg_joined fst snd] in *. rewrite list_sum_cons. pose proof (agg_rest_le f g t Ht). lia.
Qed.

Lemma forallb_Forall_imp {A} (p : A -> bool) (Q : A -> Prop) l :
  Forall (fun x => p x = true -> Q x) l -> forallb p l = true -> Forall Q l.
Proof.
  intros H. induction H as [|x r Hx Hr IH]; intros Hb; [constructor|].
  cbn [forallb] in Hb. apply andb_prop in Hb. destruct Hb as [H1 H2]. constructor; auto.
Qed.

(* the text of a well-formed expression is never longer than EXPRstring_bound() says *)
Theorem written_le_bound : forall e, wf e = true -> written e <= bound e.
Proof.
  induction e using ex_ind'; intros Hw; cbn [wf written bound] in *.
  - apply Nat.leb_le in Hw. pose proof k_num. lia.
  - pose proof k_bin. lia.
  - pose proof k_quote. pose proof k_plain. destruct q; lia.
  - apply k_unknown.
  - apply andb_prop in Hw. destruct Hw as [Ha Hb]. pose proof k_query. specialize (IHe1 Ha). specialize (IHe2 Hb). lia.
  - pose proof k_fun. pose proof (forallb_Forall_imp wf (fun x => written x <= bound x) args H Hw) as HF.
    pose proof (joined_le FUN_SEP B_FUN_ARG written bound args k_fun_sep HF). lia.
  - pose proof k_neg. specialize (IHe Hw). lia.
  - rewrite andb_true_r in Hw. specialize (IHe Hw). pose proof k_op_known. pose proof k_op_unknown. destruct k; lia.
  - apply andb_prop in Hw. destruct Hw as [Ha Hb]. specialize (IHe1 Ha). specialize (IHe2 Hb).
    pose proof k_op_known. pose proof k_op_unknown. destruct k; lia.
  - pose proof k_agg.
    pose proof (forallb_Forall_imp (fun p => wf (snd p)) (fun p => written (snd p) <= bound (snd p)) elems H Hw) as HF.
    pose proof (agg_joined_le written bound elems HF). lia.
  - pose proof k_oneof. pose proof (forallb_Forall_imp wf (fun x => written x <= bound x) elems H Hw) as HF.
    pose proof (joined_le ONEOF_SEP B_LIST_ELEM written bound elems k_oneof_sep HF). lia.
Qed.

(* every byte EXPRstring() stores, the terminator included, lies inside the buffer EXPRlength() allocated *)
Theorem expression_fits_its_buffer : forall e, wf e = true -> bytes_stored e <= buffer_size e.
Proof.
  intros e Hw. unfold bytes_stored, buffer_size. pose proof (written_le_bound e Hw). pose proof k_terminator. lia.
Qed.

(* the text is written front to back, so every intermediate state of the buffer is a prefix of the final
   one: what is stored while a sub-expression is printed is bounded by what is stored in the end *)
Lemma written_sub_query v a b : written a <= written (XQuery v a b) /\ written b <= written (XQuery v a b).
Proof. cbn [written]. lia. Qed.
