(* Proofs about Hash.v: whatever the keys, however many, every inserted key is met exactly
   once by the iteration (no declaration is lost or visited twice by DICTdo), and look-up
   finds exactly the inserted keys.  Generic in the hash function. *)
From Coq Require Import List NArith ZArith Bool Lia Permutation.
From SC Require Import gen.HashConsts Hash.
Import ListNotations.
Local Open Scope N_scope.

Lemma key_eqb_spec a b : key_eqb a b = true <-> a = b.
Proof.
  revert b. induction a as [|x a IH]; destruct b as [|y b]; cbn [key_eqb]; try (split; [discriminate|congruence]).
  - split; reflexivity.
  - rewrite andb_true_iff, N.eqb_eq, IH. split; [intros [-> ->]; reflexivity|intros E; injection E; auto].
Qed.

Lemma existsb_key k l : existsb (key_eqb k) l = true <-> In k l.
Proof.
  rewrite existsb_exists. split.
  - intros [x [Hx E]]. apply key_eqb_spec in E. subst. exact Hx.
  - intros H. exists k. split; [exact H|apply key_eqb_spec; reflexivity].
Qed.

Lemma mod2 h m : 0 < m -> h mod (2 * m) = h mod m \/ h mod (2 * m) = h mod m + m.
Proof.
  intros Hm.
  assert (H2 : 2 * m <> 0) by lia. assert (H1 : m <> 0) by lia.
  pose proof (N.div_mod h (2 * m) H2) as E2. pose proof (N.mod_upper_bound h (2 * m) H2) as B2.
  pose proof (N.div_mod h m H1) as E1. pose proof (N.mod_upper_bound h m H1) as B1.
  remember (h mod (2 * m)) as r2. remember (h mod m) as r1.
  remember (h / (2 * m)) as q2. remember (h / m) as q1.
  (* h = 2m q2 + r2 = m q1 + r1 *)
  assert (C : q1 = 2 * q2 \/ q1 = 2 * q2 + 1) by nia.
  destruct C as [-> | ->]; [left|right]; nia.
Qed.

Lemma NoDup_snoc {A} (l : list A) x : NoDup l -> ~ In x l -> NoDup (l ++ [x]).
Proof.
  induction l as [|y l IH]; cbn [app]; intros N Hx; [constructor; [intros []|constructor]|].
  inversion N as [|? ? Hy Nl]; subst. constructor.
  - rewrite in_app_iff. intros [H|[H|[]]]; [contradiction|subst; apply Hx; left; reflexivity].
  - apply IH; [exact Nl|]. intros H. apply Hx. right. exact H.
Qed.

Definition next (mx pp : N) : N * N := if pp + 1 =? mx then (0, 2 * mx) else (pp + 1, mx).

Section WithHash.
Variable hv : key -> N.

Ltac absmod k mx Hm :=
  pose proof (N.mod_upper_bound (hv k) mx ltac:(lia)) as B;
  pose proof (mod2 (hv k) mx Hm) as D;
  generalize dependent (hv k mod (2 * mx)); intros r2 D;
  generalize dependent (hv k mod mx); intros r1 B D.

Lemma addr_lt mx pp k : 0 < mx -> pp <= mx -> addr_of hv mx pp k < mx + pp.
Proof.
  intros Hm Hp. unfold addr_of. cbv zeta. absmod k mx Hm.
  destruct (N.ltb_spec r1 pp) as [L|L]; lia.
Qed.

Lemma addr_stable mx pp k : 0 < mx -> pp < mx -> addr_of hv mx pp k <> pp ->
  addr_of hv (snd (next mx pp)) (fst (next mx pp)) k = addr_of hv mx pp k.
Proof.
  intros Hm Hp. unfold addr_of, next. cbv zeta.
  destruct (N.eqb_spec (pp + 1) mx) as [W|W]; cbn [fst snd].
  - (* wrap: maxp doubles, p = 0 *)
    destruct (N.ltb_spec (hv k mod (2 * mx)) 0) as [L0|_]; [destruct (N.nlt_0_r _ L0)|].
    absmod k mx Hm.
    destruct (N.ltb_spec r1 pp) as [L|L]; [reflexivity|].
    intros Ne. exfalso. lia.
  - absmod k mx Hm. destruct (N.ltb_spec r1 pp) as [L|L].
    + destruct (N.ltb_spec r1 (pp + 1)) as [L'|L']; [reflexivity|lia].
    + intros Ne. destruct (N.ltb_spec r1 (pp + 1)) as [L'|L']; [lia|reflexivity].
Qed.

Lemma addr_split mx pp k : 0 < mx -> pp < mx -> addr_of hv mx pp k = pp ->
  addr_of hv (snd (next mx pp)) (fst (next mx pp)) k = pp \/
  addr_of hv (snd (next mx pp)) (fst (next mx pp)) k = mx + pp.
Proof.
  intros Hm Hp. unfold addr_of, next. cbv zeta.
  destruct (N.eqb_spec (pp + 1) mx) as [W|W]; cbn [fst snd].
  - destruct (N.ltb_spec (hv k mod (2 * mx)) 0) as [L0|_]; [destruct (N.nlt_0_r _ L0)|].
    absmod k mx Hm. destruct (N.ltb_spec r1 pp) as [L|L]; intros E; lia.
  - absmod k mx Hm. destruct (N.ltb_spec r1 pp) as [L|L]; intros E; [lia|].
    destruct (N.ltb_spec r1 (pp + 1)) as [L'|L']; lia.
Qed.

Lemma next_bounds mx pp : 0 < mx -> pp < mx -> 0 < snd (next mx pp) /\ fst (next mx pp) < snd (next mx pp).
Proof. intros Hm Hp. unfold next. destruct (N.eqb_spec (pp + 1) mx); cbn [fst snd]; lia. Qed.

Definition Inv (t : table) : Prop :=
  0 < maxp t /\ p t < maxp t /\
  (forall a k, In k (bk t a) -> addr hv t k = a) /\
  (forall a, NoDup (bk t a)).

Definition member (t : table) (k : key) : Prop := exists a, In k (bk t a).

Lemma create_inv : Inv create.
Proof.
  unfold Inv, create. cbn [maxp p bk]. repeat split; try (vm_compute; reflexivity).
  - intros a k [].
  - intros a. constructor.
Qed.

Lemma expand_eq t :
  expand hv t =
  if maxp t + p t <? DIRECTORY_SIZE * SEGMENT_SIZE then
    let mx' := snd (next (maxp t) (p t)) in
    let p' := fst (next (maxp t) (p t)) in
    let moves := fun k => addr_of hv mx' p' k =? maxp t + p t in
    {| maxp := mx'; p := p'; segcount := segcount t + 1; keycount := keycount t;
       bk := upd (upd (bk t) (p t) (filter (fun k => negb (moves k)) (bk t (p t))))
                 (maxp t + p t) (filter moves (bk t (p t))) |}
  else t.
Proof.
  unfold expand, next. destruct (maxp t + p t <? DIRECTORY_SIZE * SEGMENT_SIZE); [|reflexivity].
  destruct (p t + 1 =? maxp t); reflexivity.
Qed.

Lemma expand_spec t : Inv t -> Inv (expand hv t) /\ forall k, member (expand hv t) k <-> member t k.
Proof.
  intros (Hm & Hp & Ha & Hn). rewrite expand_eq.
  destruct (maxp t + p t <? DIRECTORY_SIZE * SEGMENT_SIZE); [|split; [repeat split; assumption|intros; reflexivity]].
  cbv zeta.
  pose proof (next_bounds (maxp t) (p t) Hm Hp) as [Nb1 Nb2].
  pose proof (fun k => addr_stable (maxp t) (p t) k Hm Hp) as St.
  pose proof (fun k => addr_split (maxp t) (p t) k Hm Hp) as Sp.
  set (mx' := snd (next (maxp t) (p t))) in *. set (p' := fst (next (maxp t) (p t))) in *.
  set (moves := fun k => addr_of hv mx' p' k =? maxp t + p t).
  set (S := filter (fun k => negb (moves k)) (bk t (p t))). set (M := filter moves (bk t (p t))).
  assert (Hne : maxp t + p t <> p t) by lia.
  split; [unfold Inv; cbn [maxp p bk]; repeat split; try assumption|].
  - (* address clause *)
    intros a k. unfold upd, addr. cbn [maxp p].
    destruct (N.eqb_spec a (maxp t + p t)) as [->|Na].
    + subst M. rewrite filter_In. intros [_ Hmv]. apply N.eqb_eq in Hmv. exact Hmv.
    + destruct (N.eqb_spec a (p t)) as [->|Np].
      * subst S. rewrite filter_In. intros [Hin Hmv]. apply negb_true_iff, N.eqb_neq in Hmv.
        specialize (Ha _ _ Hin). unfold addr in Ha. destruct (Sp k Ha) as [E|E]; [exact E|contradiction].
      * intros Hin. specialize (Ha _ _ Hin). unfold addr in Ha. rewrite St by congruence. exact Ha.
  - (* NoDup clause *)
    intros a. unfold upd. destruct (a =? maxp t + p t); [subst M; apply NoDup_filter, Hn|].
    destruct (a =? p t); [subst S; apply NoDup_filter, Hn|apply Hn].
  - (* membership *)
    intros k. unfold member. cbn [bk]. split.
    + intros [a Hin]. unfold upd in Hin.
      destruct (a =? maxp t + p t); [subst M; apply filter_In in Hin; exists (p t); tauto|].
      destruct (a =? p t); [subst S; apply filter_In in Hin; exists (p t); tauto|exists a; exact Hin].
    + intros [a Hin]. destruct (N.eqb_spec a (p t)) as [->|Np].
      * destruct (moves k) eqn:Mv.
        -- exists (maxp t + p t). unfold upd. rewrite N.eqb_refl. subst M. apply filter_In. split; [exact Hin|exact Mv].
        -- exists (p t). unfold upd. destruct (N.eqb_spec (p t) (maxp t + p t)) as [E|_]; [lia|]. rewrite N.eqb_refl.
           subst S. apply filter_In. split; [exact Hin|]. change (negb (moves k) = true). rewrite Mv. reflexivity.
      * exists a. unfold upd. destruct (N.eqb_spec a (maxp t + p t)) as [->|_].
        -- exfalso. specialize (Ha _ _ Hin). unfold addr in Ha.
           pose proof (addr_lt (maxp t) (p t) k Hm ltac:(lia)). lia.
        -- destruct (N.eqb_spec a (p t)); [contradiction|exact Hin].
Qed.

Lemma insert_spec t k : Inv t ->
  Inv (insert hv t k) /\ forall k', member (insert hv t k) k' <-> (k' = k \/ member t k').
Proof.
  intros I. pose proof I as (Hm & Hp & Ha & Hn). unfold insert. cbv zeta.
  destruct (existsb (key_eqb k) (bk t (addr hv t k))) eqn:Ex.
  - split; [exact I|]. intros k'. split; [auto|]. intros [->|H]; [|exact H].
    exists (addr hv t k). apply existsb_key. exact Ex.
  - assert (Nin : ~ In k (bk t (addr hv t k))).
    { intros H. apply existsb_key in H. rewrite H in Ex. discriminate. }
    set (t1 := {| maxp := maxp t; p := p t; segcount := segcount t; keycount := keycount t + 1;
                  bk := upd (bk t) (addr hv t k) (bk t (addr hv t k) ++ [k]) |}).
    assert (I1 : Inv t1).
    { unfold Inv, t1; cbn [maxp p bk]. repeat split; try assumption.
      - intros a k' Hin. change (addr hv t k' = a). unfold upd in Hin.
        destruct (N.eqb_spec a (addr hv t k)) as [->|Na].
        + apply in_app_iff in Hin. destruct Hin as [H|[<-|[]]]; [apply Ha; exact H|reflexivity].
        + apply Ha. exact Hin.
      - intros a. unfold upd. destruct (a =? addr hv t k); [|apply Hn].
        apply NoDup_snoc; [apply Hn|exact Nin]. }
    assert (M1 : forall k', member t1 k' <-> (k' = k \/ member t k')).
    { intros k'. unfold member, t1. cbn [bk]. split.
      - intros [a H]. unfold upd in H. destruct (a =? addr hv t k).
        + apply in_app_iff in H. destruct H as [H|[<-|[]]]; [right; eexists; exact H|left; reflexivity].
        + right. exists a. exact H.
      - intros [->|[a H]].
        + exists (addr hv t k). unfold upd. rewrite N.eqb_refl. apply in_app_iff. right. left. reflexivity.
        + exists a. unfold upd. destruct (N.eqb_spec a (addr hv t k)) as [->|_]; [apply in_app_iff; left|]; exact H. }
    destruct (MAX_LOAD_FACTOR <? keycount t1 / (segcount t1 * SEGMENT_SIZE)).
    + destruct (expand_spec t1 I1) as [I2 M2]. split; [exact I2|]. intros k'. rewrite M2. apply M1.
    + split; [exact I1|exact M1].
Qed.

Lemma build_spec_gen ks t : Inv t ->
  Inv (fold_left (insert hv) ks t) /\
  forall k, member (fold_left (insert hv) ks t) k <-> (In k ks \/ member t k).
Proof.
  revert t. induction ks as [|x ks IH]; cbn [fold_left]; intros t I.
  - split; [exact I|]. intros k. split; [auto|intros [[]|H]; exact H].
  - destruct (insert_spec t x I) as [I1 M1]. destruct (IH _ I1) as [I2 M2].
    split; [exact I2|]. intros k. rewrite M2, M1. cbn [In]. split.
    + intros [H|[->|H]]; auto.
    + intros [[->|H]|H]; auto.
Qed.

Lemma NoDup_flat_map {A B} (f : A -> list B) l :
  NoDup l -> (forall x, NoDup (f x)) -> (forall x y b, In b (f x) -> In b (f y) -> x = y) ->
  NoDup (flat_map f l).
Proof.
  intros Nl Nf Dj. induction Nl as [|x l Hx Nl IH]; cbn [flat_map]; [constructor|].
  assert (G : forall l1 l2 : list B, NoDup l1 -> NoDup l2 -> (forall b, In b l1 -> ~ In b l2) -> NoDup (l1 ++ l2)).
  { induction l1 as [|c l1 IH1]; cbn [app]; intros l2 N1 N2 D; [exact N2|].
    inversion N1 as [|? ? Hc N1']; subst. constructor.
    - rewrite in_app_iff. intros [H|H]; [contradiction|]. apply (D c); [left; reflexivity|exact H].
    - apply IH1; [exact N1'|exact N2|]. intros b Hb. apply D. right. exact Hb. }
  apply G; [apply Nf|exact IH|].
  intros b Hb Hin. apply in_flat_map in Hin. destruct Hin as [y [Hy Hby]].
  assert (x = y) by (eapply Dj; eassumption). subst. contradiction.
Qed.

Lemma iterate_spec t : Inv t -> NoDup (iterate t) /\ forall k, In k (iterate t) <-> member t k.
Proof.
  intros (Hm & Hp & Ha & Hn). unfold iterate. split.
  - apply NoDup_flat_map; [apply seq_NoDup|intros; apply Hn|].
    intros x y b Hx Hy. apply Ha in Hx. apply Ha in Hy. apply Nat2N.inj. congruence.
  - intros k. rewrite in_flat_map. unfold member. split.
    + intros [x [_ H]]. eexists. exact H.
    + intros [a H]. exists (N.to_nat a). rewrite N2Nat.id. split; [|exact H].
      apply in_seq. pose proof (Ha _ _ H) as E. unfold addr in E.
      pose proof (addr_lt (maxp t) (p t) k Hm ltac:(lia)). lia.
Qed.

Lemma find_spec t k : Inv t -> (find hv t k = true <-> member t k).
Proof.
  intros (Hm & Hp & Ha & Hn). unfold find. rewrite existsb_key. unfold member. split.
  - intros H. eexists. exact H.
  - intros [a H]. pose proof (Ha _ _ H) as E. rewrite E. exact H.
Qed.

(* every inserted key is met exactly once, and nothing else *)
Theorem iterate_build ks :
  NoDup (iterate (build hv ks)) /\ forall k, In k (iterate (build hv ks)) <-> In k ks.
Proof.
  unfold build. destruct (build_spec_gen ks create create_inv) as [I M].
  destruct (iterate_spec _ I) as [N E]. split; [exact N|].
  intros k. rewrite E, M. split; [intros [H|[a []]]; exact H|auto].
Qed.

Theorem find_build ks k : find hv (build hv ks) k = true <-> In k ks.
Proof.
  unfold build. destruct (build_spec_gen ks create create_inv) as [I M].
  rewrite (find_spec _ k I), M. split; [intros [H|[a []]]; exact H|auto].
Qed.

(* the visiting order is a permutation of the declared names (duplicates met once) *)
Theorem iterate_perm ks : NoDup ks -> Permutation (iterate (build hv ks)) ks.
Proof.
  intros N. destruct (iterate_build ks) as [Ni E].
  apply NoDup_Permutation; assumption.
Qed.

End WithHash.
