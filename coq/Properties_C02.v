(* C02 -- generated C++ dictionary and classes mirror the EXPRESS schema exactly: the clause
   that is an algorithm (attribute order of an instance).  Only statements closed by [exact]. *)
From Coq Require Import List NArith Bool.
From SC Require Import PyGen PyGen_Proofs CxxAttrs CxxAttrs_Proofs.
Import ListNotations.

(* A freshly created instance exposes its inherited-then-own explicit attributes in Part 21
   order, for every schema: any number of entities, any inheritance shape. *)
Theorem c02_instance_attributes_in_part21_order : forall G fuel e,
  cxx_order fuel G e = p21_ctor fuel G e.
Proof. exact cxx_order_is_p21. Qed.
Print Assumptions c02_instance_attributes_in_part21_order.

Theorem c02_example :
  cxx_order 5 G_diamond (mk 4 [2; 3]%N 1) = p21_ctor 5 G_diamond (mk 4 [2; 3]%N 1) /\
  length (cxx_order 5 G_diamond (mk 4 [2; 3]%N 1)) = 4%nat.
Proof. exact cxx_diamond. Qed.
