(* placeholder *)
From SC Require Import PyGen.
