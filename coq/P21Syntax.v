(* Part 21 parameter syntax at token level, the integer writer and the string
   literal scanner (GetLiteralStr, src/clutils/Str.cc).  Used by C01 (round trip),
   C14 (reference shifting), C10 (reference extraction).  No proofs here. *)
From Coq Require Import List ZArith Bool NArith.
From SC Require Import P21Lex.
Import ListNotations.
Local Open Scope Z_scope.

Inductive tok :=
| TInt (z : Z) | TReal (t : list byte) | TStr (s : list byte) | TBin (b : list byte)
| TEnum (e : list byte) | TRef (n : Z) | TKw (k : list byte)
| TLp | TRp | TComma | TDollar | TStar.

Inductive param :=
| PNull | PStar | PInt (z : Z) | PReal (t : list byte) | PStr (s : list byte) | PBin (b : list byte)
| PEnum (e : list byte) | PRef (n : Z) | PTyped (k : list byte) (p : param) | PList (l : list param).

(* the writer: STEPattribute::STEPwrite / STEPaggregate::STEPwrite / SDAI_Select::STEPwrite *)
Fixpoint print_param (p : param) : list tok :=
  match p with
  | PNull => [TDollar]
  | PStar => [TStar]
  | PInt z => [TInt z]
  | PReal t => [TReal t]
  | PStr s => [TStr s]
  | PBin b => [TBin b]
  | PEnum e => [TEnum e]
  | PRef n => [TRef n]
  | PTyped k q => TKw k :: TLp :: print_param q ++ [TRp]
  | PList l =>
      TLp :: (fix pl (l : list param) : list tok :=
                match l with
                | [] => []
                | [x] => print_param x
                | x :: r => print_param x ++ TComma :: pl r
                end) l ++ [TRp]
  end.

Fixpoint print_items (l : list param) : list tok :=
  match l with
  | [] => []
  | [x] => print_param x
  | x :: r => print_param x ++ TComma :: print_items r
  end.

(* the reader's parameter grammar *)
Fixpoint parse_param (fuel : nat) (ts : list tok) : option (param * list tok) :=
  match fuel with
  | O => None
  | S f =>
      match ts with
      | TDollar :: r => Some (PNull, r)
      | TStar :: r => Some (PStar, r)
      | TInt z :: r => Some (PInt z, r)
      | TReal t :: r => Some (PReal t, r)
      | TStr s :: r => Some (PStr s, r)
      | TBin b :: r => Some (PBin b, r)
      | TEnum e :: r => Some (PEnum e, r)
      | TRef n :: r => Some (PRef n, r)
      | TKw k :: TLp :: r =>
          match parse_param f r with
          | Some (q, TRp :: r') => Some (PTyped k q, r')
          | _ => None
          end
      | TLp :: TRp :: r => Some (PList [], r)
      | TLp :: r =>
          match (fix items (g : nat) (ts : list tok) : option (list param * list tok) :=
                   match g with
                   | O => None
                   | S g' =>
                       match parse_param f ts with
                       | Some (q, TComma :: r1) =>
                           match items g' r1 with
                           | Some (l, r2) => Some (q :: l, r2)
                           | None => None
                           end
                       | Some (q, TRp :: r1) => Some ([q], r1)
                       | _ => None
                       end
                   end) f r with
          | Some (l, r') => Some (PList l, r')
          | None => None
          end
      | _ => None
      end
  end.

Fixpoint psize (p : param) : nat :=
  match p with
  | PTyped _ q => S (psize q)
  | PList l => S ((fix sl (l : list param) : nat := match l with [] => O | x :: r => S (psize x + sl r) end) l)
  | _ => 1%nat
  end.

(* every instance reference mentioned by a parameter, in order (lazy loader, C10) *)
Fixpoint refs_of (p : param) : list Z :=
  match p with
  | PRef n => [n]
  | PTyped _ q => refs_of q
  | PList l => (fix rl (l : list param) : list Z := match l with [] => [] | x :: r => refs_of x ++ rl r end) l
  | _ => []
  end.

(* IncrementFileId applied to every reference (append, C14) *)
Fixpoint shift_refs (k : Z) (p : param) : param :=
  match p with
  | PRef n => PRef (n + k)
  | PTyped kw q => PTyped kw (shift_refs k q)
  | PList l => PList (map (shift_refs k) l)
  | _ => p
  end.

(* ---------------- integer writer: sprintf("%ld") ---------------- *)
Fixpoint pos_digits (fuel : nat) (n : Z) (acc : list byte) : list byte :=
  match fuel with
  | O => acc
  | S f => if n <? 10 then (Z.to_N n + 48)%N :: acc
           else pos_digits f (n / 10) ((Z.to_N (n mod 10) + 48)%N :: acc)
  end.
Definition write_nat (n : Z) : list byte := pos_digits (S (Z.to_nat (Z.log2 n))) n [].
Definition write_int (z : Z) : list byte :=
  if z <? 0 then 45%N :: write_nat (- z) else write_nat z.

(* ---------------- GetLiteralStr ---------------- *)
Definition ends_S (s : list byte) : bool :=     (* StrEndsWith(s, "\\S\\") *)
  match rev s with
  | a :: b :: c :: _ => (N.eqb a 92 && N.eqb b 83 && N.eqb c 92)%bool
  | _ => false
  end.

Fixpoint lit_loop (l : list byte) (s : list byte) (esc : bool) : list byte * list byte * bool :=
  match l with
  | [] => (s, [], esc)
  | c :: r =>
      if N.eqb c 39 then lit_loop r (s ++ [c]) (if ends_S s then esc else negb esc)
      else if negb esc then (s, l, esc)
      else lit_loop r (s ++ [c]) esc
  end.

(* returns (literal incl. quotes, rest, closed?) ; input after "in >> ws" *)
Definition get_literal (l : list byte) : list byte * list byte * bool :=
  match skip_ws l with
  | c :: r => if N.eqb c 39 then let '(s, r', esc) := lit_loop r [c] true in (s, r', negb esc)
              else ([], c :: r, true)
  | [] => ([], [], true)
  end.

(* the exchange form of a string value: every apostrophe doubled *)
Fixpoint encode_str (cs : list byte) : list byte :=
  match cs with
  | [] => []
  | c :: r => if N.eqb c 39 then 39%N :: 39%N :: encode_str r else c :: encode_str r
  end.
