From Coq Require Import List ZArith Bool Lia.
From SC Require Import gen.P21Buffers P21Safe.
Import ListNotations.
Local Open Scope Z_scope.

Theorem entnode_name_in_bounds len : 0 <= len -> entnode_extent len <= entnode_name_size.
Proof.
  intros H. unfold entnode_extent.
  assert (E : entnode_name_fill = CopyAtMost 8192) by reflexivity. rewrite E.
  unfold entnode_name_size. assert (BUFSIZ = 8192) by reflexivity. lia.
Qed.

Lemma pretty_loop_bounded_n n : forall l i, (length l <= n)%nat ->
  0 <= i <= pretty_loop_bound + 1 -> 0 <= pretty_loop l i <= pretty_loop_bound + 1.
Proof.
  induction n as [|n IH]; intros l i Hl Hi.
  - destruct l; [cbn [pretty_loop]; lia|cbn [length] in Hl; lia].
  - destruct l as [|u r]; cbn [pretty_loop]; [lia|]. cbn [length] in Hl.
    destruct (Z.ltb_spec i pretty_loop_bound) as [L|L]; [|lia].
    destruct u.
    + destruct r as [|v r']; [lia|]. cbn [length] in Hl. apply IH; lia.
    + apply IH; lia.
Qed.

Lemma pretty_loop_bounded l : forall i, 0 <= i <= pretty_loop_bound + 1 -> 0 <= pretty_loop l i <= pretty_loop_bound + 1.
Proof. intros i Hi. apply (pretty_loop_bounded_n (length l)); [apply le_n|exact Hi]. Qed.

Theorem pretty_name_in_bounds l : 0 <= pretty_loop l 0 < pretty_buf_size.
Proof.
  pose proof (pretty_loop_bounded l 0) as H.
  assert (pretty_loop_bound = 8191) by reflexivity. assert (pretty_buf_size = 8193) by reflexivity.
  specialize (H ltac:(lia)). lia.
Qed.

Theorem ena_terminator_in_bounds n : 0 <= n -> 0 <= ena_terminator_index n < ena_size.
Proof.
  intros H. unfold ena_terminator_index.
  assert (ena_loop_bound = 63) by reflexivity. assert (ena_size = 64) by reflexivity. lia.
Qed.

Theorem no_unbounded_helpers : unbounded_case_helpers = 0 /\ imbed_aggr_recursive = false.
Proof. split; reflexivity. Qed.
