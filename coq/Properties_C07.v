(* C07 -- pretty-printed EXPRESS is valid, equivalent to its source and stable: the
   parenthesisation rule of expressions.  Only statements closed by [exact]. *)
From Coq Require Import List NArith Bool.
From SC Require Import gen.PPRule ExpPP ExpPP_Proofs.
Import ListNotations.

(* What exppp prints for an expression is a function of the tree with nests of one chain
   operator flattened: for every expression, nothing but the nesting of such an operator (and
   redundant parentheses) is lost; every other operator keeps its operands between parentheses.
   The per-operator treatment is regenerated from pretty_expr.c on every run. *)
Theorem c07_printing_factors_through_flattening : forall e paren prev,
  print e paren prev = print_ct (flat e) paren prev.
Proof. exact print_flat. Qed.
Print Assumptions c07_printing_factors_through_flattening.

Theorem c07_same_flattening_same_text : forall e e', flat e = flat e' -> print_top e = print_top e'.
Proof. exact same_flat_same_text. Qed.
Print Assumptions c07_same_flattening_same_text.

(* The flattened tree of any expression is well formed, and the left-nested tree a parser
   rebuilds from it flattens back to it: printing the printed text again gives the same text. *)
Theorem c07_reading_back_loses_nothing : forall t, wfct t = true -> flat (unflat t) = t.
Proof. exact flat_unflat. Qed.
Print Assumptions c07_reading_back_loses_nothing.

Theorem c07_printing_again_changes_nothing : forall e, print_top (unflat (flat e)) = print_top e.
Proof. exact reprint_stable. Qed.
Print Assumptions c07_printing_again_changes_nothing.

(* non-vacuity: a - (b + (c + d)) * e : the inner sum is printed as one chain *)
Example c07_example :
  let a := Atom [97%N] in let b := Atom [98%N] in let c := Atom [99%N] in let d := Atom [100%N] in
  print_top (Bin 17 a (Bin 26 (Bin 23 b (Bin 23 c d)) (Atom [101%N]))) =
  [TAtom [97%N]; TOp 17; TLP; TLP; TAtom [98%N]; TOp 23; TAtom [99%N]; TOp 23; TAtom [100%N]; TRP; TOp 26; TAtom [101%N]; TRP]%N.
Proof. vm_compute. reflexivity. Qed.
