(* C07 -- pretty-printed EXPRESS is valid, equivalent to its source and stable: the
   parenthesisation rule of expressions.  Only statements closed by [exact]. *)
From Coq Require Import List NArith Bool.
From SC Require Import gen.PPRule ExpPP ExpPP_Proofs ExpParse ExpParse_Proofs gen.StrSplit ExpStr ExpStr_Proofs.
Import ListNotations.

(* What exppp prints for an expression is a function of the tree with nests of one chain
   operator flattened: for every expression, nothing but the nesting of such an operator (and
   redundant parentheses) is lost; every other operator keeps its operands between parentheses.
   The per-operator treatment is regenerated from pretty_expr.c on every run. *)
Theorem c07_printing_factors_through_flattening : forall e paren prev,
  print e paren prev = print_ct (flat e) paren prev.
Proof. exact print_flat. Qed.
Print Assumptions c07_printing_factors_through_flattening.

Theorem c07_same_flattening_same_text : forall e e', flat e = flat e' -> print_top e = print_top e'.
Proof. exact same_flat_same_text. Qed.
Print Assumptions c07_same_flattening_same_text.

(* The flattened tree of any expression is well formed, and the left-nested tree a parser
   rebuilds from it flattens back to it: printing the printed text again gives the same text. *)
Theorem c07_reading_back_loses_nothing : forall t, wfct t = true -> flat (unflat t) = t.
Proof. exact flat_unflat. Qed.
Print Assumptions c07_reading_back_loses_nothing.

Theorem c07_printing_again_changes_nothing : forall e, print_top (unflat (flat e)) = print_top e.
Proof. exact reprint_stable. Qed.
Print Assumptions c07_printing_again_changes_nothing.

(* The printed text can be read without any operator precedence: a reader that only knows
   parentheses, and accepts an unparenthesised run of operands only under one chain operator
   (or a single operator), recovers the flattened tree from the text of every expression whose
   operators are real ones.  So exppp never relies on precedence or on the associativity of
   "-", "/", "**", comparisons ... to be understood, and the text determines the tree up to the
   nesting of a chain operator. *)
Theorem c07_text_determines_tree : forall e, ops_known e = true -> parse (print_top e) = Some (flat e).
Proof. exact parse_print. Qed.
Print Assumptions c07_text_determines_tree.

Theorem c07_printing_is_injective_up_to_chains : forall e e',
  ops_known e = true -> ops_known e' = true -> print_top e = print_top e' -> flat e = flat e'.
Proof. exact print_injective. Qed.
Print Assumptions c07_printing_is_injective_up_to_chains.

(* non-vacuity: the reader rejects what exppp would print if it dropped the parentheses of
   x - (y - z), and reads the real text back *)
Example c07_reader_example :
  let x := Atom [120%N] in let y := Atom [121%N] in let z := Atom [122%N] in
  parse [TAtom [120%N]; TOp 17; TAtom [121%N]; TOp 17; TAtom [122%N]]%N = None /\
  parse (print_top (Bin 17 x (Bin 17 y z))) = Some (CB 17 (CA [120%N]) (CB 17 (CA [121%N]) (CA [122%N])))%N /\
  ops_known (Bin 17 x (Bin 17 y z)) = true.
Proof. vm_compute. repeat split. Qed.

(* non-vacuity: a - (b + (c + d)) * e : the inner sum is printed as one chain *)
Example c07_example :
  let a := Atom [97%N] in let b := Atom [98%N] in let c := Atom [99%N] in let d := Atom [100%N] in
  print_top (Bin 17 a (Bin 26 (Bin 23 b (Bin 23 c d)) (Atom [101%N]))) =
  [TAtom [97%N]; TOp 17; TLP; TLP; TAtom [98%N]; TOp 23; TAtom [99%N]; TOp 23; TAtom [100%N]; TRP; TOp 26; TAtom [101%N]; TRP]%N.
Proof. vm_compute. reflexivity. Qed.

(* Long string literals (exppp.c breakLongStr, BREAK_CHAR / QUOTE_CHAR regenerated from it).  Whatever the
   layout decides (ds: for every piece after the first, whether the literal is closed and a new one opened
   on the next line), the literals printed are well-formed literal bodies (apostrophes in pairs: no cut falls
   inside a pair) and the concatenation of the values they denote is the source string; the text between the
   quotes, concatenated, is the source text with its apostrophes doubled.  "The splitting of long string
   literals" of the property changes nothing but where the quotes and "+" stand. *)
Theorem c07_split_string_denotes_source : forall s ds,
  exists vs, map undbl (literals s ds) = map Some vs /\ concat vs = s.
Proof. exact split_denotes_source. Qed.
Print Assumptions c07_split_string_denotes_source.

Theorem c07_split_string_keeps_text : forall s ds, concat (literals s ds) = dbl s.
Proof. exact split_keeps_text. Qed.
Print Assumptions c07_split_string_keeps_text.

(* the loop of the C code (nextBreakpoint / iptr += i) computes the structural pieces the proofs use *)
Theorem c07_string_loop_computes_pieces : forall s, pieces_c s = chunks s.
Proof. exact pieces_c_chunks. Qed.
Print Assumptions c07_string_loop_computes_pieces.

(* the check's oracle for real output: a list of literals it accepts is one the model can print *)
Theorem c07_explained_literals_are_model_output : forall s lits,
  explained s lits = true -> exists ds, literals s ds = lits.
Proof. exact explained_sound. Qed.
Print Assumptions c07_explained_literals_are_model_output.

(* non-vacuity: it's a.b cut after the dot *)
Example c07_split_example :
  literals [105; 116; 39; 115; 32; 97; 46; 98]%N [true] = [[105; 116; 39; 39; 115; 32; 97; 46]; [98]]%N /\
  explained [105; 116; 39; 115; 32; 97; 46; 98]%N [[105; 116; 39; 39; 115; 32; 97; 46]; [98]]%N = true /\
  explained [105; 116; 39; 115; 32; 97; 46; 98]%N [[105; 116; 39]; [39; 115; 32; 97; 46; 98]]%N = false.
Proof. vm_compute. repeat split. Qed.
