(* C18: what exp2python writes for an entity -- the class's base list and the constructor's
   parameter list (classes_python.c LIBdescribe_entity(), count_supertypes(), cmp_python_mro();
   linklist.c LISTsort(); entity.c ENTITY_get_all_attributes()) -- next to what ISO 10303-21
   11.2.5 prescribes (inherited-then-own explicit attributes, supertypes in declaration order,
   an ancestor reached along several paths contributing once, where first met).
   No proofs here. *)
From Coq Require Import List NArith Bool.
Import ListNotations.
Local Open Scope N_scope.

Inductive akind : Set := Explicit | Derived | Inverse.
Record attr := { a_owner : N; a_index : N; a_kind : akind }.
Record ent := { e_id : N; e_supers : list N; e_attrs : list attr }.
Definition schema := list ent.

Definition attr_eqb (a b : attr) : bool := (a_owner a =? a_owner b) && (a_index a =? a_index b).
Definition is_explicit (a : attr) : bool := match a_kind a with Explicit => true | _ => false end.

Fixpoint lookup (G : schema) (i : N) : option ent :=
  match G with
  | [] => None
  | e :: r => if e_id e =? i then Some e else lookup r i
  end.

(* ---- the generator ---- *)
(* count_supertypes(): length of the longest supertype chain *)
Fixpoint chain_len (fuel : nat) (G : schema) (i : N) : N :=
  match fuel with
  | O => 0
  | S f =>
    match lookup G i with
    | None => 0
    | Some e => fold_left (fun top s => N.max top (1 + chain_len f G s)) (e_supers e) 0
    end
  end.

(* LISTsort(list, cmp_python_mro): bubble passes; neighbours are swapped when the earlier one has
   the shorter chain, until a pass moves nothing *)
Fixpoint bubble_pass (len : N -> N) (prev : N) (l : list N) : list N * bool :=
  match l with
  | [] => ([prev], false)
  | x :: r =>
    if len prev <? len x
    then let '(t, _) := bubble_pass len prev r in (x :: t, true)
    else let '(t, m) := bubble_pass len x r in (prev :: t, m)
  end.
Fixpoint bubble_sort (fuel : nat) (len : N -> N) (l : list N) : list N :=
  match fuel, l with
  | O, _ => l
  | _, [] => []
  | S f, x :: r => let '(t, moved) := bubble_pass len x r in if moved then bubble_sort f len t else t
  end.

Definition depth (G : schema) : N -> N := chain_len (length G) G.
Definition sorted_supers (G : schema) (e : ent) : list N :=
  bubble_sort (S (length (e_supers e))) (depth G) (e_supers e).

(* the class statement's base list *)
Definition gen_bases (G : schema) (e : ent) : list N := sorted_supers G e.

(* ENTITY_get_all_attributes(): supertypes (their lists have been sorted in place by the time
   they are walked: classes are written supertypes first) then own, no duplicate removal *)
Fixpoint all_attrs (fuel : nat) (G : schema) (i : N) : list attr :=
  match fuel with
  | O => []
  | S f =>
    match lookup G i with
    | None => []
    | Some e => flat_map (all_attrs f G) (sorted_supers G e) ++ e_attrs e
    end
  end.

(* the constructor's parameters after self *)
Definition gen_ctor (fuel : nat) (G : schema) (e : ent) : list attr :=
  filter is_explicit (flat_map (all_attrs fuel G) (sorted_supers G e)) ++ filter is_explicit (e_attrs e).

(* ---- ISO 10303-21 order ---- *)
Fixpoint dedup_acc (seen : list attr) (l : list attr) : list attr :=
  match l with
  | [] => []
  | a :: r => if existsb (attr_eqb a) seen then dedup_acc seen r else a :: dedup_acc (a :: seen) r
  end.
Definition dedup := dedup_acc [].

Fixpoint p21_all (fuel : nat) (G : schema) (i : N) : list attr :=
  match fuel with
  | O => []
  | S f =>
    match lookup G i with
    | None => []
    | Some e => dedup (flat_map (p21_all f G) (e_supers e) ++ filter is_explicit (e_attrs e))
    end
  end.
Definition p21_ctor (fuel : nat) (G : schema) (e : ent) : list attr :=
  dedup (flat_map (p21_all fuel G) (e_supers e) ++ filter is_explicit (e_attrs e)).

(* declared supertype order is already what the sort produces *)
Fixpoint nonincreasing (len : N -> N) (l : list N) : bool :=
  match l with
  | a :: ((b :: _) as r) => (len b <=? len a) && nonincreasing len r
  | _ => true
  end.
