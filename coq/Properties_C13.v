(* C13 -- the instance manager stays consistent under any sequence of operations.
   Only statements here; proofs are in InstMgr_Proofs.v.  [run ops] is the state
   reached from a fresh manager by ANY list of operations (no length bound). *)
From Coq Require Import List ZArith NArith.
From SC Require Import InstMgr InstMgr_Proofs.
Import ListNotations.
Local Open Scope Z_scope.

(* Every reachable state satisfies the invariant (unique node per instance,
   arrayIndex = position, id map = exactly the live ids, max id bounds). *)
Theorem c13_inv_reachable : forall ops, Inv (run ops).
Proof. exact run_inv. Qed.
Print Assumptions c13_inv_reachable.

(* No operation sequence dereferences a null node (Delete by instance). *)
Theorem c13_no_crash : forall ops o, step (run ops) o <> Crash.
Proof. intros ops o. apply step_no_crash. apply run_inv. Qed.
Print Assumptions c13_no_crash.

(* count = number of live instances; i-th instance = i-th surviving one and it
   reports index i.  [abs] is the list of (instance, id, name, state) in
   insertion order. *)
Theorem c13_count_and_index : forall ops i,
  let s := run ops in
  q_count s = Z.of_nat (length (abs s)) /\
  q_inst_at s i = option_map (fun x => fst (fst (fst x))) (nth_error (abs s) i) /\
  ((i < length (abs s))%nat -> q_index_at s i = Some (Z.of_nat i)).
Proof.
  intros ops i s. split; [apply q_count_spec|]. split; [apply q_inst_at_spec|].
  apply q_index_at_spec. apply run_inv.
Qed.
Print Assumptions c13_count_and_index.

(* look-up by id returns exactly the live instance carrying it, nothing for any
   other id, and no two live instances carry the same id. *)
Theorem c13_find_exact : forall ops k,
  let s := run ops in
  (forall h, q_find s k = Some h <-> exists nm state, In (h, k, nm, state) (abs s)) /\
  (q_find s k = None <-> ~ In k (live_ids s)) /\
  NoDup (map (fun x => snd (fst (fst x))) (abs s)).
Proof.
  intros ops k s. split; [intros h; apply q_find_spec; apply run_inv|].
  split; [apply q_find_none_spec; apply run_inv|apply ids_unique; apply run_inv].
Qed.
Print Assumptions c13_find_exact.

(* Append: either the instance is already registered (nothing changes) or it
   is added at the end; its id is kept when set and unused and is otherwise
   fresh: strictly above maxid, hence above every id seen since the manager was
   last emptied (c13_max_monotone). *)
Theorem c13_append_spec : forall ops h state,
  let s := run ops in
  inst_alive s h = true ->
  append_outcome s h state (append s h state).
Proof. intros ops h state s Ha. apply append_correct; [apply run_inv|exact Ha]. Qed.
Print Assumptions c13_append_spec.

(* Delete removes exactly the i-th entry, leaves every other instance's id and
   state alone and renumbers the indices (via c13_inv_reachable). *)
Theorem c13_delete_spec : forall ops i n,
  let s := run ops in
  nth_error (master s) i = Some n ->
  let s' := delete_node s n in
  handles s' = remove_at i (handles s) /\
  map n_state (master s') = remove_at i (map n_state (master s)) /\
  inst_alive s' (n_inst n) = false /\
  maxid s' = maxid s /\
  (forall h', h' <> n_inst n -> inst_id s' h' = inst_id s h' /\ inst_alive s' h' = inst_alive s h').
Proof. intros ops i n s Hn. apply (delete_correct s i n (run_inv ops) Hn). Qed.
Print Assumptions c13_delete_spec.

(* the maximum id is never below a live id, and only Clear/DeleteInstances lower it *)
Theorem c13_max_bounds : forall ops k, In k (live_ids (run ops)) -> k <= maxid (run ops).
Proof. intros ops. apply max_ge_live. apply run_inv. Qed.
Print Assumptions c13_max_bounds.

Theorem c13_max_monotone : forall ops o s',
  step (run ops) o = Ok s' -> o <> OClear -> o <> ODeleteAll -> maxid (run ops) <= maxid s'.
Proof. intros ops o s'. apply maxid_monotone. apply run_inv. Qed.
Print Assumptions c13_max_monotone.

(* by-name queries: count and "first match at or after start" *)
Theorem c13_by_name : forall ops name start,
  let s := run ops in
  q_kwcount s name = Z.of_nat (length (filter (fun x => N.eqb (snd (fst x)) name) (abs s))) /\
  q_by_name s name start = spec_first name (skipn start (abs s)).
Proof. intros. split; [apply q_kwcount_spec|apply q_by_name_spec]. Qed.
Print Assumptions c13_by_name.

(* non-vacuity: a concrete history with auto ids, a duplicate id, re-append of
   the same instance and a deletion reaches a non-trivial state *)
Example c13_example :
  let s := run [OCreate 0 0%N; OAppend 0%nat Complete; OAppend 0%nat Complete;
                OCreate 5 1%N; OAppend 1%nat New_; OCreate 5 2%N; OAppend 2%nat Complete;
                ODeleteIdx 0%nat] in
  map (fun x => (fst (fst (fst x)), snd (fst (fst x)))) (abs s) = [(1%nat, 5); (2%nat, 6)]
  /\ q_find s 6 = Some 2%nat /\ q_find s 1 = None /\ maxid s = 6.
Proof. vm_compute. repeat split. Qed.
