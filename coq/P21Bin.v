(* C09: BINARY literals.  src/cldai/sdaiBinary.cc SDAI_Binary::ReadBinary() on the stream model of
   P21Lex.v.  The stored value is the string of hexadecimal digits between the quotes, letters in upper case.
   No proofs here; extracted for the correspondence check. *)
From Coq Require Import List ZArith Bool NArith.
From SC.gen Require Import SevTable.
From SC Require Import P21Lex.
Import ListNotations.
Local Open Scope Z_scope.

Definition DQUOTE : byte := 34%N.

Definition is_xdigit (c : byte) : bool :=
  (is_digit c || (N.leb 65 c && N.leb c 70) || (N.leb 97 c && N.leb c 102))%N%bool.

(* toupper() of a hexadecimal digit: the value is kept the way Part 21 spells it *)
Definition up_hex (c : byte) : byte := if (N.leb 97 c && N.leb c 102)%N%bool then (c - 32)%N else c.

(* while( in.good() && isxdigit( c ) ) { str += toupper( c ); in.get( c ); }   -- c keeps its value when get fails *)
Fixpoint hex_loop (fuel : nat) (s : stream) (c : byte) (acc : list byte) : stream * byte * list byte :=
  match fuel with
  | O => (s, c, acc)
  | S f =>
    if good s && is_xdigit c then
      let '(oc, s') := s_get s in
      hex_loop f s' (match oc with Some x => x | None => c end) (acc ++ [up_hex c])
    else (s, c, acc)
  end.

(* ReadBinary( in, err, 1, needDelims ): (value assigned, severity, stream) starting from severity sev *)
Definition read_binary (s0 : stream) (sev : Z) (need_delims : bool) : option (list byte) * Z * stream :=
  let s1 := s_ws s0 in
  if good s1 then
    match s_get s1 with
    | (Some c, s2) =>
      if N.eqb c DQUOTE || is_xdigit c then
        let '(c1, s3, valid0) :=
            if N.eqb c DQUOTE then
              let '(oc, s3) := s_get s2 in ((match oc with Some x => x | None => c end), s3, false)
            else (c, s2, true) in
        let '(s4, c2, str) := hex_loop (S (length (rest s3))) s3 c1 [] in
        let s5 := if good s4 && negb (N.eqb c2 DQUOTE) then s_putback s4 c2 else s4 in
        let valid :=
            if N.eqb c2 DQUOTE then negb valid0
            else if need_delims then false else valid0 in
        (match str with [] => None | _ => Some str end,
         if valid && negb (match str with [] => true | _ => false end) then sev else Z.min sev SEVERITY_WARNING, s5)
      else (None, Z.min sev SEVERITY_WARNING, s2)
    | (None, s2) => (None, Z.min sev SEVERITY_WARNING, s2)
    end
  else (None, Z.min sev SEVERITY_INCOMPLETE, s1).
