(* The lazy loader's index (C10) and inverse-attribute resolution (C11):
   lazyInstMgr::addLazyInstance, instanceDependencies (src/cllazyfile/lazyInstMgr.cc),
   lazyRefs (src/cllazyfile/lazyRefs.h).  Instance ids are Z; the forward table maps
   an instance to the references it mentions, in order, with multiplicity.
   No proofs here. *)
From Coq Require Import List ZArith Bool.
Import ListNotations.
Local Open Scope Z_scope.

Definition table := list (Z * list Z).      (* in file order; keys unique *)

Fixpoint tfind (t : table) (k : Z) : list Z :=
  match t with
  | [] => []
  | (k', v) :: r => if Z.eqb k k' then v else tfind r k
  end.

(* append v to the vector stored under k (judyL2Array::insert(key, value)) *)
Fixpoint tadd (t : table) (k v : Z) : table :=
  match t with
  | [] => [(k, [v])]
  | (k', l) :: r => if Z.eqb k k' then (k', l ++ [v]) :: r else (k', l) :: tadd r k v
  end.

(* addLazyInstance: the forward vector is stored as given; every reference adds
   the referring instance to the reverse vector of the referenced one *)
Definition add_instance (fr : table * table) (inst : Z * list Z) : table * table :=
  let '(fwd, rev) := fr in
  let '(id, refs) := inst in
  match refs with
  | [] => (fwd, rev)
  | _ => (fwd ++ [(id, refs)], fold_left (fun rv r => tadd rv r id) refs rev)
  end.

Definition build (insts : list (Z * list Z)) : table * table :=
  fold_left add_instance insts ([], []).

Definition zmem (x : Z) (l : list Z) : bool := existsb (Z.eqb x) l.

(* instanceDependencies: a queue of instances still to look at and the set of
   instances already checked.  None = out of fuel. *)
Fixpoint deps_loop (fuel : nat) (fwd : table) (queue checked : list Z) : option (list Z) :=
  match fuel with
  | O => None
  | S f =>
      match queue with
      | [] => Some checked
      | x :: q => if zmem x checked then deps_loop f fwd q checked
                  else deps_loop f fwd (q ++ tfind fwd x) (x :: checked)
      end
  end.

Definition edges (fwd : table) : nat := fold_left (fun n kv => (n + length (snd kv))%nat) fwd O.

Definition deps (fwd : table) (id : Z) : option (list Z) :=
  deps_loop (S (length (tfind fwd id) + 2 * edges fwd + length fwd)) fwd (tfind fwd id) [].

(* ---------------- inverse attributes (lazyRefs) ---------------- *)
(* an instance for this purpose: id, entity type, and per attribute (owner entity,
   attribute name) the instances it refers to *)
Record rinst := { r_id : Z; r_type : Z; r_attrs : list (Z * Z * list Z) }.

Definition attr_refs (i : rinst) (ent attr : Z) : list Z :=
  flat_map (fun a => if (Z.eqb (fst (fst a)) ent && Z.eqb (snd (fst a)) attr)%bool then snd a else []) (r_attrs i).

Definition all_refs (i : rinst) : list Z := flat_map (fun a => snd a) (r_attrs i).

Fixpoint nodup_z (l : list Z) : list Z :=
  match l with
  | [] => []
  | x :: r => if zmem x r then nodup_z r else x :: nodup_z r
  end.

(* INVERSE inv : ... OF E FOR a  resolved for instance x:
   candidates = the distinct referrers of x (reverse table) whose type is E or a
   subtype; kept when attribute a (declared in E) really refers to x *)
Definition resolve_inverse (isa : Z -> Z -> bool) (pop : list rinst) (rev : table)
           (x : Z) (ent attr : Z) : list Z :=
  let cands := nodup_z (tfind rev x) in
  filter (fun y =>
            match find (fun i => Z.eqb (r_id i) y) pop with
            | Some i => (isa (r_type i) ent && zmem x (attr_refs i ent attr))%bool
            | None => false
            end) cands.
