From Coq Require Import List ZArith Bool NArith Lia.
From SC Require Import P21Lex P21Syntax P21Syntax_Proofs Append WorkSessionDefs WorkSession.
From SC.gen Require Import WsLetters.
Import ListNotations.
Local Open Scope Z_scope.

(* the four letters are told apart, each is accepted by the reader's letter test,
   and reading a letter gives back the state that wrote it *)
Lemma letter_roundtrip s c : ws_letter s = Some c -> ws_state c = s /\ In c ws_accepted.
Proof. destruct s; cbn; intros H; inversion H; subst; vm_compute; auto 10. Qed.

Lemma letter_defined s : s <> WNoState -> exists c, ws_letter s = Some c.
Proof. destruct s; try congruence; intros _; eexists; reflexivity. Qed.

Lemma letters_injective s1 s2 c : ws_letter s1 = Some c -> ws_letter s2 = Some c -> s1 = s2.
Proof. intros H1 H2. apply letter_roundtrip in H1. apply letter_roundtrip in H2. destruct H1, H2. congruence. Qed.

(* no letter is 'E' (it would hide ENDSEC from the reader) *)
Lemma no_letter_E s c : ws_letter s = Some c -> c <> 69%N.
Proof. destruct s; cbn; intros H; inversion H; subst; vm_compute; discriminate. Qed.

Lemma save_spec s : Forall (fun n => has_state n = true) s ->
  map (fun ci => (ws_state (fst ci), snd ci)) (save s) = view s.
Proof.
  induction 1 as [|n r Hn Hr IH]; [reflexivity|].
  unfold save, view in *. cbn [flat_map map].
  unfold has_state in Hn. destruct (w_state n) eqn:E; try discriminate;
    cbn [ws_letter app map fst snd]; rewrite IH; f_equal.
Qed.

(* load (save s) = the surviving population with every state restored *)
Lemma load_save s : Forall (fun n => has_state n = true) s -> load (save s) = surviving s.
Proof. intros H. unfold load, surviving. rewrite (save_spec s H). reflexivity. Qed.

Lemma scrub_param_at_ext l1 l2 p : (forall id, l1 id = l2 id) -> forall d, scrub_param_at l1 d p = scrub_param_at l2 d p.
Proof.
  intros Hl. induction p using param_ind'; intros d; cbn [scrub_param_at]; try reflexivity.
  - rewrite Hl. reflexivity.
  - rewrite IHp. reflexivity.
  - f_equal. induction H as [|x r Hx Hr IHr]; [reflexivity|]. cbn. rewrite Hx, IHr. reflexivity.
Qed.

Lemma scrub_param_ext l1 l2 p : (forall id, l1 id = l2 id) -> scrub_param l1 p = scrub_param l2 p.
Proof. intros Hl. apply scrub_param_at_ext. exact Hl. Qed.

Lemma scrub_inst_ext l1 l2 i : (forall id, l1 id = l2 id) -> scrub_inst l1 i = scrub_inst l2 i.
Proof.
  intros Hl. unfold scrub_inst. f_equal. apply map_ext. intros [kw ps]. cbn. f_equal.
  apply map_ext. intros p. apply scrub_param_ext. exact Hl.
Qed.

Lemma scrub_param_at_idem live p : forall d, scrub_param_at live d (scrub_param_at live d p) = scrub_param_at live d p.
Proof.
  induction p using param_ind'; intros d; cbn [scrub_param_at]; try reflexivity.
  - destruct (live n) eqn:E; cbn [scrub_param_at]; [rewrite E; reflexivity|].
    destruct d as [|[|d']]; cbn [scrub_param_at]; [reflexivity|reflexivity|rewrite E; reflexivity].
  - rewrite IHp. reflexivity.
  - f_equal. rewrite map_map. induction H as [|x r Hx Hr IHr]; [reflexivity|]. cbn. rewrite Hx, IHr. reflexivity.
Qed.

Lemma scrub_param_idem live p : scrub_param live (scrub_param live p) = scrub_param live p.
Proof. apply scrub_param_at_idem. Qed.

Lemma scrub_inst_idem live i : scrub_inst live (scrub_inst live i) = scrub_inst live i.
Proof.
  unfold scrub_inst. cbn [p_id p_body]. f_equal. rewrite map_map. apply map_ext. intros [kw ps]. cbn [fst snd].
  f_equal. rewrite map_map. apply map_ext. intros p. apply scrub_param_idem.
Qed.

Lemma filter_all {A} (p : A -> bool) l : Forall (fun x => p x = true) l -> filter p l = l.
Proof. induction 1 as [|x r Hx Hr IH]; [reflexivity|]. cbn. rewrite Hx, IH. reflexivity. Qed.

Lemma existsb_map {A B} (f : A -> B) (p : B -> bool) l : existsb p (map f l) = existsb (fun x => p (f x)) l.
Proof. induction l as [|x r IH]; cbn; [reflexivity|]. rewrite IH. reflexivity. Qed.

(* the second generation is a fixed point *)
Lemma surviving_idem s : surviving (surviving s) = surviving s.
Proof.
  unfold surviving, restore.
  set (kept := filter (fun x => negb (is_delete (fst x))) (view s)).
  set (live := fun id => existsb (fun x => Z.eqb (p_id (snd x)) id) kept).
  set (R := map (fun x => {| w_state := fst x; w_inst := scrub_inst live (snd x) |}) kept).
  assert (Hv : view R = map (fun x => (fst x, scrub_inst live (snd x))) kept).
  { unfold view, R. rewrite map_map. reflexivity. }
  rewrite Hv.
  assert (Hk : Forall (fun x => negb (is_delete (fst x)) = true) (map (fun x => (fst x, scrub_inst live (snd x))) kept)).
  { apply Forall_forall. intros y Hy. apply in_map_iff in Hy. destruct Hy as [x [<- Hx]]. cbn [fst].
    unfold kept in Hx. apply filter_In in Hx. tauto. }
  rewrite (filter_all _ _ Hk).
  rewrite map_map. unfold R. apply map_ext. intros x. cbn [fst snd]. f_equal.
  rewrite (scrub_inst_ext _ live).
  - apply scrub_inst_idem.
  - intros id. rewrite existsb_map. reflexivity.
Qed.

Lemma save_load_save s : Forall (fun n => has_state n = true) s ->
  save (load (save s)) = save (surviving s).
Proof. intros H. rewrite load_save by exact H. reflexivity. Qed.

Lemma surviving_has_state s : Forall (fun n => has_state n = true) s -> Forall (fun n => has_state n = true) (surviving s).
Proof.
  intros H. unfold surviving, restore. apply Forall_forall. intros n Hn. apply in_map_iff in Hn.
  destruct Hn as [x [<- Hx]]. apply filter_In in Hx. destruct Hx as [Hx _]. unfold view in Hx.
  apply in_map_iff in Hx. destruct Hx as [m [<- Hm]]. cbn. rewrite Forall_forall in H. apply (H m Hm).
Qed.

(* saving, loading and saving again reproduces the second-generation file *)
Lemma third_generation s : Forall (fun n => has_state n = true) s ->
  save (load (save (load (save s)))) = save (load (save s)).
Proof.
  intros H. rewrite (load_save s H).
  rewrite (load_save (surviving s) (surviving_has_state s H)). rewrite surviving_idem. reflexivity.
Qed.
