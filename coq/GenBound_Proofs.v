From Coq Require Import List ZArith.
From SC Require Import gen.BoundRule GenBound.
Import ListNotations.

(* the branch structure sends only integer literals to the u.integer form *)
Lemma number_only_for_literals : forall t, pick t bound_branches = FNumber -> t = Type_Integer.
Proof. intros t; destruct t; vm_compute; intros H; try reflexivity; discriminate H. Qed.

(* non-interference: the printed bound does not depend on the world *)
Lemma print_bound_world_independent w w' e : print_bound w e = print_bound w' e.
Proof.
  unfold print_bound. destruct (pick (etype e) bound_branches) eqn:P; [|reflexivity].
  apply number_only_for_literals in P. unfold u_integer. rewrite P. reflexivity.
Qed.

(* a negative literal, which the parser reads as the negation of a literal, is printed as its value *)
Lemma print_bound_negated_literal w e v :
  etype e <> Type_Integer -> eneg e = Some v -> negated_literal_as_number = true -> print_bound w e = PNumber (- v)%Z.
Proof.
  intros T E N. unfold print_bound. destruct (pick (etype e) bound_branches) eqn:P.
  - apply number_only_for_literals in P. contradiction.
  - rewrite N, E. reflexivity.
Qed.

(* and for a literal it is the literal's value *)
Lemma print_bound_literal w e : etype e = Type_Integer -> print_bound w e = PNumber (evalue e).
Proof. intros E. unfold print_bound, u_integer. rewrite E. vm_compute. reflexivity. Qed.
