(* C05: the fixed-size scratch buffers of the Part 21 reader, with sizes and fill bounds
   regenerated from the sources (gen/P21Buffers.v).  No proofs here. *)
From Coq Require Import List ZArith Bool.
From SC Require Import gen.P21Buffers.
Import ListNotations.
Local Open Scope Z_scope.

(* EntNode::name: highest index written + 1 when the constructor receives a name of length len *)
Definition entnode_extent (len : Z) : Z :=
  match entnode_name_fill with
  | CopyAll => len + 1                                  (* StrToLower copies the text and its terminator *)
  | CopyAtMost n => Z.max (Z.min (len + 1) n) (BUFSIZ + 1)   (* strncpy, then name[BUFSIZ] := 0 *)
  end.

(* PrettyTmpName(): the name as a list of "is this character an underscore"; returns the final
   index i (newname[i] := 0 is the last write) *)
Fixpoint pretty_loop (l : list bool) (i : Z) : Z :=
  match l with
  | [] => i
  | u :: r =>
    if i <? pretty_loop_bound then
      if u then
        (* ++i; write newname[i]; then ++i unless the name ended *)
        match r with
        | [] => i + 1
        | _ :: r' => pretty_loop r' (i + 2)
        end
      else pretty_loop r (i + 1)
    else i
  end.

(* CreateSubSuperInstance(): index of the terminating null for an instance with n parts *)
Definition ena_terminator_index (n : Z) : Z := Z.min n ena_loop_bound.
