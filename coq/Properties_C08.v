(* C08 -- complex instances are accepted exactly when supertype constraints allow them.
   Only statements closed by [exact]. *)
From Coq Require Import List NArith Bool Permutation.
From SC Require Import Complex Complex_Proofs ComplexFlat_Proofs.
Import ListNotations.

(* Whether a combination is supported depends on the set of part names only: not on the order
   in which the parts are written, nor on repetitions.  For every schema graph and every list. *)
Theorem c08_part_order_does_not_matter : forall G A B,
  Permutation A B -> supports G A = supports G B.
Proof. exact supports_perm. Qed.
Print Assumptions c08_part_order_does_not_matter.

Theorem c08_supports_is_a_function_of_the_set : forall G A B,
  (forall x, In x A <-> In x B) -> supports G A = supports G B.
Proof. exact supports_same. Qed.
Print Assumptions c08_supports_is_a_function_of_the_set.

Theorem c08_rule_is_a_function_of_the_set : forall G A B,
  (forall x, In x A <-> In x B) -> legal G A = legal G B.
Proof. exact legal_same. Qed.
Print Assumptions c08_rule_is_a_function_of_the_set.

(* what the reader accepts (STEPcomplex::Initialize: one part is decided on the entity itself, two and more parts by the
   supertype lists) does not depend on the order of the parts either *)
Theorem c08_accepted_whatever_the_order : forall G A B,
  Permutation A B -> accepted G A = accepted G B.
Proof. exact accepted_perm. Qed.
Print Assumptions c08_accepted_whatever_the_order.

(* an externally mapped instance with a single part is accepted exactly when the rule allows that entity alone:
   it has no supertype and is not abstract (schemas in which no entity is its own supertype) *)
Theorem c08_single_part_accepted_iff_legal : forall G e,
  memb e (supers G e) = false -> memb e (subs G e) = false ->
  accepted G [e] = legal G [e].
Proof. exact accepted_single. Qed.
Print Assumptions c08_single_part_accepted_iff_legal.

Example c08_single_example :
  accepted G_twosupers [1]%N = true /\ legal G_twosupers [1]%N = true /\ accepted G_oneof [1]%N = false /\ legal G_oneof [1]%N = false /\
  accepted G_oneof [2]%N = false /\ legal G_oneof [2]%N = false.
Proof. vm_compute. repeat split. Qed.

(* "supported iff legal" is false of the faithful model (and of the code: the witness replays):
   an entity with two supertypes inside one hierarchy is matched along one path only. *)
Theorem c08_supports_iff_legal_refuted :
  supports G_twosupers [1; 3; 4; 5]%N = true /\ legal G_twosupers [1; 3; 4; 5]%N = false.
Proof. exact twosupers_refuted. Qed.
Print Assumptions c08_supports_iff_legal_refuted.

(* Positive half for the hierarchies most schemas have: when all subtypes of e (mentioned in its
   SUPERTYPE OF expression or not) are leaves, the tree exp2cxx builds for e denotes exactly: e alone
   when nothing is declared below it, otherwise e together with one of the name sets its declared
   constraint allows (any nesting of ONEOF / AND / ANDOR, unmentioned subtypes joined by ANDOR).
   Equality of the lists of sets, for every graph, entity and expression. *)
Theorem c08_flat_hierarchy_tree_is_the_constraint : forall G f e,
  (forall s, In s (mentioned G e) -> subs G s = []) ->
  (forall s, In s (subs G e) -> subs G s = []) ->
  sets (build (S f) G e) =
  match declared G e, implicit G e with
  | None, [] => [[e]]
  | _, _ => map (cons e) (dsets (constraint G e))
  end.
Proof. exact flat_tree_denotes_constraint. Qed.
Print Assumptions c08_flat_hierarchy_tree_is_the_constraint.

(* non-vacuity: G_oneof's root has leaf subtypes only, and its tree accepts what the rule lists *)
Example c08_flat_example :
  (forall s, In s (subs G_oneof 1) -> subs G_oneof s = [])%N /\
  sets (build 3 G_oneof 1%N) = map (cons 1%N) (dsets (constraint G_oneof 1%N)).
Proof. split; [intros s H; vm_compute in H; repeat (destruct H as [<-|H]; [reflexivity|]); destruct H | vm_compute; reflexivity]. Qed.

Theorem c08_example :
  supports G_oneof [1; 2]%N = true /\ legal G_oneof [2; 1]%N = true /\
  supports G_oneof [1; 2; 3]%N = false /\ legal G_oneof [1; 2; 3]%N = false /\
  supports G_oneof [4; 2; 1]%N = true /\ legal G_oneof [1; 2; 4]%N = true /\
  supports G_oneof [2; 4]%N = false /\ legal G_oneof [2; 4]%N = false.
Proof. exact oneof_example. Qed.
