(* C03 / C15: the attribute loop of SDAI_Application_instance::STEPread
   (src/clstepcore/sdaiApplication_instance.cc) - how the parameters of a record are handed to the
   attributes of the class, where some attributes are "redefining" ones (SELF\super.attr : narrower;
   they take no parameter), and what the instance severity is when there are too few or too many
   parameters.  The stream is seen as tokens: a value (with the severity its attribute's reader
   gives it), a comma, the closing parenthesis.  What an attribute does with an empty parameter is
   an argument (gen/NullTable.v decides it).  A value followed by something that is neither a comma
   nor the parenthesis ("Delimiter expected", CheckRemainingInput) is not followed further: it is
   reported as at least a warning.  No proofs here; extracted for the correspondence check. *)
From Coq Require Import List ZArith Bool.
From SC.gen Require Import SevTable.
From SC Require Import FileSev.
Import ListNotations.
Local Open Scope Z_scope.

Inductive rtoken : Set := RV (sev : Z) | RComma | RClose.

Definition merge (acc s : Z) : Z := if s <=? SEVERITY_USERMSG then greater acc s else acc.

(* after a closing parenthesis: every attribute left must be a redefining one, or values are missing *)
Definition after_close (rest : list bool) (acc : Z) : Z :=
  if forallb (fun b => b) rest then acc else greater acc SEVERITY_WARNING.

Section Loop.
  Variable empty_sev : nat -> Z.     (* severity attribute i gives an empty parameter *)

  (* the for loop; attrs: true = redefining; idx = index of the head of attrs *)
  Fixpoint attr_loop (attrs : list bool) (idx : nat) (ts : list rtoken) (acc : Z) : Z :=
    match attrs with
    | [] => greater acc SEVERITY_INPUT_ERROR        (* STEPread_error: "No more attributes were expected" *)
    | true :: rest =>
      match ts with
      | RClose :: _ => after_close rest acc
      | _ => attr_loop rest (S idx) ts acc
      end
    | false :: rest =>
      let '(s, ts1) := match ts with RV s :: r => (s, r) | _ => (empty_sev idx, ts) end in
      let acc1 := merge acc s in
      match ts1 with
      | RComma :: r => attr_loop rest (S idx) r acc1
      | RClose :: _ => after_close rest acc1
      | RV _ :: _ => greater acc1 SEVERITY_WARNING          (* "Delimiter expected after attribute value" *)
      | [] => greater acc1 SEVERITY_INPUT_ERROR
      end
    end.

  (* the whole of STEPread after the opening parenthesis *)
  Definition record_sev (attrs : list bool) (ts : list rtoken) : Z :=
    match attrs with
    | [] => match ts with RClose :: _ => SEVERITY_NULL | _ => SEVERITY_INPUT_ERROR end
    | _ =>
      match ts with
      | RClose :: _ => if forallb (fun b => b) attrs then SEVERITY_NULL else SEVERITY_WARNING
      | _ => attr_loop attrs 0 ts SEVERITY_NULL
      end
    end.
End Loop.

(* the token stream of a record with the given parameters: v1 , v2 , ... vk ) *)
Fixpoint params (sevs : list Z) : list rtoken :=
  match sevs with
  | [] => [RClose]
  | [s] => [RV s; RClose]
  | s :: r => RV s :: RComma :: params r
  end.

Definition explicit_count (attrs : list bool) : nat := length (filter negb attrs).
