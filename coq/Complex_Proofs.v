From Coq Require Import List NArith Bool Permutation.
From SC Require Import Complex.
Import ListNotations.
Local Open Scope N_scope.

Definition same (A B : list N) : Prop := forall x, In x A <-> In x B.

Lemma memb_In x l : memb x l = true <-> In x l.
Proof.
  unfold memb. rewrite existsb_exists. split.
  - intros [y [Hy E]]. apply N.eqb_eq in E. subst. exact Hy.
  - intros H. exists x. split; [exact H|apply N.eqb_refl].
Qed.

Lemma memb_same A B : same A B -> forall x, memb x A = memb x B.
Proof.
  intros H x. destruct (memb x A) eqn:E.
  - symmetry. apply memb_In, H, memb_In, E.
  - destruct (memb x B) eqn:E'; [|reflexivity]. apply memb_In, H, memb_In in E'. congruence.
Qed.

Lemma forallb_same {f : N -> bool} A B : same A B -> forallb f A = forallb f B.
Proof.
  intros H. destruct (forallb f A) eqn:E.
  - symmetry. apply forallb_forall. intros x Hx. rewrite forallb_forall in E. apply E, H, Hx.
  - destruct (forallb f B) eqn:E'; [|reflexivity].
    rewrite forallb_forall in E'. assert (forallb f A = true) by (apply forallb_forall; intros x Hx; apply E', H, Hx). congruence.
Qed.

Lemma existsb_same {f : N -> bool} A B : same A B -> existsb f A = existsb f B.
Proof.
  intros H. destruct (existsb f A) eqn:E.
  - symmetry. apply existsb_exists. apply existsb_exists in E. destruct E as [x [Hx Fx]]. exists x. split; [apply H, Hx|exact Fx].
  - destruct (existsb f B) eqn:E'; [|reflexivity].
    apply existsb_exists in E'. destruct E' as [x [Hx Fx]].
    assert (existsb f A = true) by (apply existsb_exists; exists x; split; [apply H, Hx|exact Fx]). congruence.
Qed.

Lemma subset_same_l A B m : same A B -> subset A m = subset B m.
Proof. intros H. unfold subset. apply forallb_same, H. Qed.

Lemma forallb_ext2 {A} (f g : A -> bool) l : (forall x, f x = g x) -> forallb f l = forallb g l.
Proof. intros H. induction l as [|a l IH]; [reflexivity|]. cbn [forallb]. rewrite H, IH. reflexivity. Qed.
Lemma existsb_ext2 {A} (f g : A -> bool) l : (forall x, f x = g x) -> existsb f l = existsb g l.
Proof. intros H. induction l as [|a l IH]; [reflexivity|]. cbn [existsb]. rewrite H, IH. reflexivity. Qed.

Lemma subset_same_r A B m : same A B -> subset m A = subset m B.
Proof. intros H. unfold subset. apply forallb_ext2. intros x. apply memb_same, H. Qed.

Lemma set_eqb_same A B m : same A B -> set_eqb A m = set_eqb B m.
Proof. intros H. unfold set_eqb. rewrite (subset_same_l A B m H), (subset_same_r A B m H). reflexivity. Qed.

Lemma matches_same t A B : same A B -> matches t A = matches t B.
Proof. intros H. unfold matches. apply existsb_ext2. intros m. apply set_eqb_same, H. Qed.

Lemma filter_same (f : N -> bool) A B : same A B -> same (filter f A) (filter f B).
Proof. intros H x. rewrite !filter_In. split; intros [H1 H2]; (split; [apply H, H1|exact H2]). Qed.

Lemma same_nil A B : same A B -> (A = [] <-> B = []).
Proof.
  intros H. split; intros E; subst.
  - destruct B as [|b B]; [reflexivity|]. destruct (proj2 (H b) (or_introl eq_refl)).
  - destruct A as [|a A]; [reflexivity|]. destruct (proj1 (H a) (or_introl eq_refl)).
Qed.

(* the order (and repetition) of the parts of a complex instance does not matter *)
Theorem supports_same G A B : same A B -> supports G A = supports G B.
Proof.
  intros H. unfold supports.
  set (f := fun s => 1 <? N.of_nat (length (supers G s))).
  pose proof (filter_same f A B H) as HM.
  destruct (filter f A) as [|a MA] eqn:EA.
  - assert (EB : filter f B = []) by (apply (same_nil _ _ HM); reflexivity). rewrite EB.
    apply existsb_ext2. intros r. apply matches_same, H.
  - destruct (filter f B) as [|b MB] eqn:EB.
    + exfalso. assert (a :: MA = []) by (apply (same_nil _ _ HM); reflexivity). discriminate.
    + assert (INV : filter (fun r => existsb (fun m => memb m (names (root_tree G r))) (a :: MA)) (roots G)
                   = filter (fun r => existsb (fun m => memb m (names (root_tree G r))) (b :: MB)) (roots G)).
      { apply filter_ext. intros r. apply existsb_same, HM. }
      rewrite INV. apply existsb_ext2. intros choice.
      rewrite (set_eqb_same A B _ H). f_equal. apply forallb_same, HM.
Qed.

Corollary supports_perm G A B : Permutation A B -> supports G A = supports G B.
Proof.
  intros P. apply supports_same. intros x. split; intros I; [eapply Permutation_in; eassumption|].
  eapply Permutation_in; [apply Permutation_sym; exact P|exact I].
Qed.

(* the same for the declarative rule *)
Theorem legal_same G A B : same A B -> legal G A = legal G B.
Proof.
  intros H. unfold legal. f_equal.
  - rewrite (forallb_same A B H). apply forallb_ext2. intros e. apply subset_same_r, H.
  - rewrite (forallb_same A B H). apply forallb_ext2. intros e.
    assert (E : filter (fun s => memb s A) (subs G e) = filter (fun s => memb s B) (subs G e)).
    { apply filter_ext. intros s. apply memb_same, H. }
    rewrite E. reflexivity.
Qed.

(* ---- where the matcher and the rule part: an entity with two supertypes inside one hierarchy ---- *)
(* e1 SUPERTYPE OF (ONEOF (e2, (e3 AND e5))); e2, e3, e5 SUBTYPE OF (e1); e3 SUPERTYPE OF (e4);
   e4 SUBTYPE OF (e2, e3).   {e1, e3, e4, e5} lacks e4's supertype e2, yet it is supported. *)
Definition G_twosupers : graph :=
  [ {| c_id := 1; c_supers := []; c_abstract := false;
       c_expr := Some (XOneOf [XLeaf 2; XAnd [XLeaf 3; XLeaf 5]]) |};
    {| c_id := 2; c_supers := [1]; c_abstract := false; c_expr := None |};
    {| c_id := 3; c_supers := [1]; c_abstract := false; c_expr := Some (XLeaf 4) |};
    {| c_id := 4; c_supers := [2; 3]; c_abstract := false; c_expr := None |};
    {| c_id := 5; c_supers := [1]; c_abstract := false; c_expr := None |} ].
Lemma twosupers_refuted : supports G_twosupers [1; 3; 4; 5] = true /\ legal G_twosupers [1; 3; 4; 5] = false.
Proof. vm_compute. split; reflexivity. Qed.

(* non-vacuity: a hierarchy where both agree, with accepted and refused sets *)
Definition G_oneof : graph :=
  [ {| c_id := 1; c_supers := []; c_abstract := true; c_expr := Some (XOneOf [XLeaf 2; XLeaf 3]) |};
    {| c_id := 2; c_supers := [1]; c_abstract := false; c_expr := None |};
    {| c_id := 3; c_supers := [1]; c_abstract := false; c_expr := None |};
    {| c_id := 4; c_supers := [1]; c_abstract := false; c_expr := None |} ].
Lemma oneof_example :
  supports G_oneof [1; 2] = true /\ legal G_oneof [2; 1] = true /\
  supports G_oneof [1; 2; 3] = false /\ legal G_oneof [1; 2; 3] = false /\
  supports G_oneof [4; 2; 1] = true /\ legal G_oneof [1; 2; 4] = true /\
  supports G_oneof [2; 4] = false /\ legal G_oneof [2; 4] = false.
Proof. vm_compute. repeat split. Qed.

(* ---- a single part ---- *)
(* the order of the parts does not matter for what the reader accepts either *)
Theorem accepted_perm G A B : Permutation A B -> accepted G A = accepted G B.
Proof.
  intros P. unfold accepted.
  destruct A as [|a [|a2 A']].
  - apply Permutation_nil in P. subst B. reflexivity.
  - apply Permutation_length_1_inv in P. subst B. reflexivity.
  - destruct B as [|b [|b2 B']].
    + apply Permutation_sym, Permutation_nil in P. discriminate P.
    + apply Permutation_sym, Permutation_length_1_inv in P. discriminate P.
    + apply supports_perm. exact P.
Qed.

(* an instance with one part is accepted exactly when the rule allows that entity alone
   (in a schema where no entity is its own supertype) *)
Theorem accepted_single G e :
  memb e (supers G e) = false -> memb e (subs G e) = false ->
  accepted G [e] = legal G [e].
Proof.
  intros Hsup Hsub. unfold accepted, legal. cbn [forallb]. rewrite !andb_true_r.
  assert (D : filter (fun s => memb s [e]) (subs G e) = []).
  { induction (subs G e) as [|s l IH]; [reflexivity|].
    cbn [memb existsb] in Hsub. apply orb_false_iff in Hsub. destruct Hsub as [Hs Hl].
    cbn [filter memb existsb]. rewrite N.eqb_sym, Hs. cbn [orb]. apply IH. exact Hl. }
  rewrite D.
  destruct (supers G e) as [|s l] eqn:ES; [reflexivity|].
  cbn [subset forallb memb existsb]. cbn [memb existsb] in Hsup. apply orb_false_iff in Hsup. destruct Hsup as [Hs _].
  rewrite N.eqb_sym, Hs. reflexivity.
Qed.
