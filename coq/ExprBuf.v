(* C06: the buffer exppp's EXPRlength() prints an expression into.
   EXPRlength( e ) allocates EXPRstring_bound( e ) + B_TERMINATOR bytes and lets EXPRstring() write the
   text of e into them with sprintf / strcpy / strcat -- none of which knows the size of the buffer.
   [written] is the number of characters EXPRstring() writes (without the terminator), [bound] what
   EXPRstring_bound() computes; the lengths of the literal pieces and the terms of the bound are
   regenerated from src/exppp/pretty_expr.c (gen/ExprBound.v).  No proofs here. *)
From Coq Require Import List Arith Bool.
From SC Require Import gen.ExprBound.
Import ListNotations.

(* an expression as EXPRstring() sees it: the kind of node and the lengths of its texts *)
Inductive ex : Set :=
| XNum (len : nat)                       (* INTEGER, REAL, LOGICAL literal, ?, PI, E, SELF: len characters are printed *)
| XBinary (len : nat)                    (* BINARY literal of len digits *)
| XName (len : nat) (quoted : bool)      (* STRING literal (quoted: an encoded one), entity, attribute, enumeration item, identifier *)
| XUnknown                               (* a kind EXPRstring() does not know, without a name *)
| XQuery (var : nat) (agg body : ex)
| XFuncall (name : nat) (args : list ex)
| XNegate (a : ex)
| XOp (known : bool) (a : ex) (b : option ex)   (* known: '.' or '\'; otherwise the remark for an unknown operator is written *)
| XAggregate (elems : list (bool * ex))  (* the flag: this element is a repeat count, written after " : " *)
| XOneof (elems : list ex).

(* texts of lengths ls with sep characters between them *)
Fixpoint joined (sep : nat) (ls : list nat) : nat :=
  match ls with
  | [] => 0
  | x :: r => match r with [] => x | _ :: _ => x + sep + joined sep r end
  end.

Definition agg_sep (r : bool) : nat := if r then AGG_SEP_REPEAT else AGG_SEP.
Fixpoint agg_rest (l : list (bool * nat)) : nat :=
  match l with [] => 0 | (r, n) :: t => agg_sep r + n + agg_rest t end.
Definition agg_joined (l : list (bool * nat)) : nat :=
  match l with [] => 0 | (_, n) :: t => n + agg_rest t end.

(* characters EXPRstring() writes for e, the terminator not counted *)
Fixpoint written (e : ex) : nat :=
  match e with
  | XNum len => len
  | XBinary len => BIN_HEAD + len
  | XName len q => (if q then QUOTE_EXTRA else PLAIN_EXTRA) + len
  | XUnknown => UNKNOWN_KIND_MAX
  | XQuery v a b => QUERY_HEAD + v + written a + QUERY_MID + written b + QUERY_TAIL
  | XFuncall n args => FUN_HEAD + n + joined FUN_SEP (map written args) + FUN_TAIL
  | XNegate a => NEG_HEAD + written a
  | XOp known a b => written a + (if known then OP_SEP_KNOWN else OP_SEP_UNKNOWN) + match b with Some b => written b | None => 0 end
  | XAggregate elems => AGG_HEAD + agg_joined (map (fun p => (fst p, written (snd p))) elems) + AGG_TAIL
  | XOneof elems => ONEOF_HEAD + joined ONEOF_SEP (map written elems) + ONEOF_TAIL
  end.

(* EXPRstring_bound( e ).  For a literal the name is not counted (symbol.name is NULL or adds to the bound:
   the model's value is the smaller one) *)
Fixpoint bound (e : ex) : nat :=
  match e with
  | XNum _ => B_SLACK
  | XBinary len => B_SLACK + len
  | XName len _ => B_SLACK + len
  | XUnknown => B_SLACK
  | XQuery v a b => B_SLACK + v + bound a + bound b
  | XFuncall n args => B_SLACK + n + list_sum (map (fun x => B_FUN_ARG + bound x) args)
  | XNegate a => B_SLACK + bound a + B_SLACK
  | XOp _ a b => B_SLACK + bound a + match b with Some b => bound b | None => B_SLACK end
  | XAggregate elems => B_SLACK + list_sum (map (fun p => B_LIST_ELEM + bound (snd p)) elems)
  | XOneof elems => B_SLACK + list_sum (map (fun x => B_LIST_ELEM + bound x) elems)
  end.

(* the literals are no longer than the formats they are printed with allow *)
Fixpoint wf (e : ex) : bool :=
  match e with
  | XNum len => len <=? NUM_MAX
  | XBinary _ | XName _ _ | XUnknown => true
  | XQuery _ a b => wf a && wf b
  | XFuncall _ args => forallb wf args
  | XNegate a => wf a
  | XOp _ a b => wf a && match b with Some b => wf b | None => true end
  | XAggregate elems => forallb (fun p => wf (snd p)) elems
  | XOneof elems => forallb wf elems
  end.

(* bytes of the buffer EXPRlength() allocates, and bytes EXPRstring() stores in it *)
Definition buffer_size (e : ex) : nat := bound e + B_TERMINATOR.
Definition bytes_stored (e : ex) : nat := written e + 1.
