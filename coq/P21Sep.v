(* Shared by the models of the two Part 21 readers (coq/P21Scan.v: lazy loader, coq/P21Skip.v: eager reader):
   the bytes that matter, where a comment ends, and token separators in any layout.  No proofs here. *)
From Coq Require Import List ZArith Bool NArith.
From SC Require Import P21Lex.
Import ListNotations.
Local Open Scope N_scope.

Definition SLASH : byte := 47.
Definition STAR : byte := 42.
Definition HASH : byte := 35.
Definition LPAR : byte := 40.
Definition RPAR : byte := 41.
Definition SEMI : byte := 59.
Definition EQUALS : byte := 61.
Definition BANG : byte := 33.
Definition MINUS : byte := 45.
Definition USCORE : byte := 95.
Definition SPACE : byte := 32.

(* findNormalString("*/") entered after the opening slash and asterisk: the text after the first asterisk-slash *)
Fixpoint comment_end (l : list byte) : option (list byte) :=
  match l with
  | a :: t =>
    match t with
    | b :: r => if (a =? STAR) && (b =? SLASH) then Some r else comment_end t
    | [] => None
    end
  | [] => None
  end.

(* the comment text does not hold the closing asterisk-slash *)
Fixpoint no_close (txt : list byte) : bool :=
  match txt with
  | a :: t => match t with b :: _ => negb ((a =? STAR) && (b =? SLASH)) && no_close t | [] => true end
  | [] => true
  end.

Definition head_is (p : byte -> bool) (l : list byte) : bool := match l with c :: _ => p c | [] => false end.

(* token separators outside a record: white space, comment, white space, comment, ..., white space *)
Definition seps : Set := (list (list byte * list byte) * list byte)%type.
Definition seps_text (s : seps) : list byte :=
  flat_map (fun p => fst p ++ SLASH :: STAR :: snd p ++ [STAR; SLASH]) (fst s) ++ snd s.
Definition seps_ok (s : seps) : bool :=
  forallb (fun p => forallb is_space (fst p) && no_close (snd p)) (fst s) && forallb is_space (snd s).

