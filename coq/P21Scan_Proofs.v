(* C10: what the scan of the lazy loader (coq/P21Scan.v) finds in a data section of well-formed
   instances, whatever their layout: every instance under its name and keyword, with exactly the
   instance names its record mentions outside strings and comments. *)
From Coq Require Import List ZArith Bool NArith Lia.
From SC.gen Require Import ScanRule.
From SC Require Import P21Lex P21Str P21Str_Proofs P21Sep P21Scan.
From SC Require Export P21Sep_Proofs.
Import ListNotations.
Local Open Scope N_scope.

(* ---------------- white space, comments ---------------- *)



Lemma skip_sep_mono f : forall l x, skip_sep f l = Some x -> skip_sep (S f) l = Some x.
Proof.
  induction f as [|f IH]; intros l x H; [discriminate|].
  cbn [skip_sep] in H. cbn [skip_sep].
  destruct (skip_ws l) as [|a [|b r]]; try exact H.
  destruct ((a =? SLASH) && (b =? STAR)); [|exact H].
  destruct (comment_end r) as [r'|]; [|discriminate].
  apply IH. exact H.
Qed.

Lemma skip_sep_le f f' l x : (f <= f')%nat -> skip_sep f l = Some x -> skip_sep f' l = Some x.
Proof.
  intros Hle H. induction Hle as [|m _ IH]; [exact H|]. apply skip_sep_mono. exact IH.
Qed.

(* separators are skipped up to a character that is neither white space nor a slash *)
Lemma skip_sep_seps pairs : forall wsf c rest f,
  seps_ok (pairs, wsf) = true -> is_space c = false -> (c =? SLASH) = false ->
  skip_sep (S (length pairs + f)) (seps_text (pairs, wsf) ++ c :: rest) = Some (c :: rest).
Proof.
  induction pairs as [|[ws txt] ps IH]; intros wsf c rest f Hok Hc Hs.
  - unfold seps_ok in Hok. cbn [fst snd forallb andb] in Hok.
    unfold seps_text. cbn [fst snd flat_map app length plus skip_sep].
    rewrite (skip_ws_spaces _ _ Hok), (skip_ws_nonspace _ _ Hc).
    destruct rest as [|b r]; [reflexivity|]. rewrite Hs. reflexivity.
  - unfold seps_ok in Hok. cbn [fst snd forallb] in Hok.
    apply andb_true_iff in Hok. destruct Hok as [H1 Hwf].
    apply andb_true_iff in H1. destruct H1 as [Hp Hps].
    apply andb_true_iff in Hp. destruct Hp as [Hws Htxt].
    unfold seps_text. cbn [fst snd flat_map length plus].
    change (skip_sep (S (S (length ps + f))) ?l) with (skip_sep (S (S (length ps + f))) l).
    cbn [skip_sep]. rewrite <- !app_assoc. rewrite (skip_ws_spaces _ _ Hws).
    change ((SLASH :: STAR :: txt ++ [STAR; SLASH]) ++ ?m) with (SLASH :: STAR :: ((txt ++ [STAR; SLASH]) ++ m)).
    rewrite skip_ws_nonspace by reflexivity.
    change ((SLASH =? SLASH) && (STAR =? STAR)) with true. cbv iota.
    rewrite <- app_assoc. change ([STAR; SLASH] ++ ?m) with (STAR :: SLASH :: m).
    rewrite (comment_end_closes _ _ Htxt).
    assert (Hok' : seps_ok (ps, wsf) = true).
    { unfold seps_ok. cbn [fst snd]. rewrite Hps, Hwf. reflexivity. }
    specialize (IH wsf c rest f Hok' Hc Hs). unfold seps_text in IH. cbn [fst snd] in IH.
    rewrite <- app_assoc in IH. exact IH.
Qed.

(* ---------------- digits ---------------- *)
Lemma digits_loop_app ds : forall rest acc cnt,
  forallb is_digit ds = true -> head_is is_digit rest = false ->
  digits_loop (ds ++ rest) acc cnt = (fold_left (fun a c => a * ID_BASE + (c - 48)) ds acc, (cnt + length ds)%nat, rest).
Proof.
  induction ds as [|d ds IH]; intros rest acc cnt Hd Hr.
  - cbn [app fold_left length]. rewrite Nat.add_0_r.
    destruct rest as [|c r]; [reflexivity|]. cbn [head_is] in Hr. cbn [digits_loop]. rewrite Hr. reflexivity.
  - cbn [forallb] in Hd. apply andb_true_iff in Hd. destruct Hd as [H1 H2].
    cbn [app digits_loop]. rewrite H1. rewrite (IH rest _ _ H2 Hr).
    cbn [fold_left length]. rewrite Nat.add_succ_r. reflexivity.
Qed.


(* ---------------- the keyword ---------------- *)
Lemma kw_char_not_space c : is_kw_char c = true -> is_space c = false.
Proof.
  unfold is_kw_char, is_upper, is_digit, is_space, MINUS, USCORE. intros H.
  repeat (apply orb_false_iff; split); apply N.eqb_neq; intros ->; discriminate H.
Qed.

Lemma keyword_S f c r acc : keyword (S f) (c :: r) acc =
  if is_kw_char c || ((c =? BANG) && match acc with [] => true | _ => false end) then keyword f r (acc ++ [c])
  else if (c =? SLASH) && match r with b :: _ => b =? STAR | [] => false end && match acc with [] => true | _ => false end then
    match comment_end (tl r) with
    | Some r' => keyword f (skip_ws r') acc
    | None => None
    end
  else if is_kw_delim c then Some (acc, c :: r) else None.
Proof. reflexivity. Qed.

Lemma keyword_reads kw : forall c rest acc f,
  forallb is_kw_char kw = true -> is_kw_char c = false -> (c =? BANG) = false -> (c =? SLASH) = false ->
  is_kw_delim c = true ->
  keyword (S (length kw + f)) (kw ++ c :: rest) acc = Some (acc ++ kw, c :: rest).
Proof.
  induction kw as [|a kw IH]; intros c rest acc f Hk Hc Hb Hs Hd.
  - cbn [app length Nat.add]. rewrite keyword_S. rewrite Hc, Hb, Hs, Hd. cbn [orb andb]. rewrite app_nil_r. reflexivity.
  - cbn [forallb] in Hk. apply andb_true_iff in Hk. destruct Hk as [Ha Hk].
    cbn [app length Nat.add]. rewrite keyword_S. rewrite Ha. cbn [orb].
    rewrite (IH c rest (acc ++ [a]) f Hk Hc Hb Hs Hd). rewrite <- app_assoc. reflexivity.
Qed.

Lemma keyword_mono f : forall l acc x, keyword f l acc = Some x -> keyword (S f) l acc = Some x.
Proof.
  induction f as [|f IH]; intros l acc x H; [discriminate|].
  cbn [keyword] in H. cbn [keyword].
  destruct l as [|c r]; [discriminate|].
  destruct (is_kw_char c || (c =? BANG) && match acc with [] => true | _ => false end).
  - apply IH. exact H.
  - destruct ((c =? SLASH) && match r with b :: _ => b =? STAR | [] => false end && match acc with [] => true | _ => false end).
    + destruct (comment_end (tl r)) as [r'|]; [|discriminate]. apply IH. exact H.
    + exact H.
Qed.

Lemma keyword_le f f' l acc x : (f <= f')%nat -> keyword f l acc = Some x -> keyword f' l acc = Some x.
Proof.
  intros Hle H. induction Hle as [|m _ IH]; [exact H|]. apply keyword_mono. exact IH.
Qed.

(* ---------------- seekInstanceEnd ---------------- *)
Lemma seek_end_S f c r depth refs : seek_end (S f) (c :: r) depth refs =
      if c =? LPAR then seek_end f r (depth + 1)%Z refs
      else if c =? SLASH then
        match r with
        | b :: r2 => if b =? STAR then
                       match comment_end r2 with
                       | Some r3 => seek_end f r3 depth refs
                       | None => None
                       end
                     else None
        | [] => None
        end
      else if c =? APOS then
        let '(_, unclosed, r') := get_literal (c :: r) in
        if unclosed then None else seek_end f r' depth refs
      else if c =? EQUALS then None
      else if c =? HASH then
        let r1 := skip_ws r in
        match r1 with
        | d :: _ =>
          if is_digit d then
            let '(v, _, r2) := digits_loop r1 0 0 in
            if ID_MAX <? v then None
            else seek_end f r2 depth (refs ++ [v])
          else None
        | [] => None
        end
      else if c =? RPAR then
        let d' := (depth - 1)%Z in
        if (d' =? 0)%Z then
          match skip_sep (S (length r)) r with
          | Some r1 =>
            match r1 with
            | e :: r2 => if e =? SEMI then Some (refs, r2) else seek_end f r1 d' refs
            | [] => None
            end
          | None => None
          end
        else seek_end f r d' refs
      else seek_end f r depth refs.
Proof. reflexivity. Qed.

Lemma seek_end_mono f : forall l d refs x, seek_end f l d refs = Some x -> seek_end (S f) l d refs = Some x.
Proof.
  induction f as [|f IH]; intros l d refs x H; [discriminate|].
  destruct l as [|c r]; [discriminate|].
  rewrite seek_end_S in H. rewrite seek_end_S.
  destruct (c =? LPAR); [apply IH; exact H|].
  destruct (c =? SLASH).
  { destruct r as [|b r2]; [discriminate|]. destruct (b =? STAR); [|discriminate].
    destruct (comment_end r2) as [r3|]; [|discriminate]. apply IH. exact H. }
  destruct (c =? APOS).
  { destruct (get_literal (c :: r)) as [[s u] r']. destruct u; [discriminate|]. apply IH. exact H. }
  destruct (c =? EQUALS); [discriminate|].
  destruct (c =? HASH).
  { cbv zeta in H |- *. destruct (skip_ws r) as [|d0 r1]; [discriminate|].
    destruct (is_digit d0); [|discriminate].
    destruct (digits_loop (d0 :: r1) 0 0) as [[v n] r2].
    destruct (ID_MAX <? v); [discriminate|]. apply IH. exact H. }
  destruct (c =? RPAR).
  { cbv zeta in H |- *. destruct ((d - 1 =? 0)%Z).
    - destruct (skip_sep (S (length r)) r) as [r1|]; [|discriminate].
      destruct r1 as [|e r2]; [discriminate|]. destruct (e =? SEMI); [exact H|]. apply IH. exact H.
    - apply IH. exact H. }
  apply IH. exact H.
Qed.

Lemma seek_end_le f f' l d refs x : (f <= f')%nat -> seek_end f l d refs = Some x -> seek_end f' l d refs = Some x.
Proof.
  intros Hle H. induction Hle as [|m _ IH]; [exact H|]. apply seek_end_mono. exact IH.
Qed.

Definition delta (t : rtok) : Z := match t with KOpen => 1%Z | KClose => (-1)%Z | _ => 0%Z end.

Lemma plain_ok_tests c : plain_ok c = true ->
  (c =? LPAR) = false /\ (c =? RPAR) = false /\ (c =? SLASH) = false /\ (c =? APOS) = false /\ (c =? EQUALS) = false /\ (c =? HASH) = false.
Proof.
  unfold plain_ok. intros H.
  repeat (apply andb_true_iff in H; destruct H as [H ?]).
  repeat match goal with X : negb _ = true |- _ => apply negb_true_iff in X end.
  repeat split; assumption.
Qed.

(* one token, one round of the loop *)
Lemma seek_end_token t next f d refs :
  tok_ok t next = true ->
  match t with KClose => (1 <? d)%Z = true | _ => True end ->
  seek_end (S f) (rtext t ++ next) d refs = seek_end f next (d + delta t)%Z (refs ++ refs_of [t]).
Proof.
  intros Hok Hd. destruct t as [| |its|ws ds|txt|c]; cbn [rtext refs_of delta].
  - cbn [app]. rewrite seek_end_S. change (LPAR =? LPAR) with true. cbv iota. rewrite app_nil_r. reflexivity.
  - cbn [app]. rewrite seek_end_S.
    change (RPAR =? LPAR) with false. change (RPAR =? SLASH) with false. change (RPAR =? APOS) with false.
    change (RPAR =? EQUALS) with false. change (RPAR =? HASH) with false. change (RPAR =? RPAR) with true.
    cbv iota zeta. apply Z.ltb_lt in Hd.
    destruct (Z.eqb_spec (d - 1) 0) as [E|E]; [lia|].
    rewrite app_nil_r. replace (d + -1)%Z with (d - 1)%Z by lia. reflexivity.
  - cbn [tok_ok] in Hok. apply andb_true_iff in Hok. destruct Hok as [Hits Hn].
    apply negb_true_iff in Hn.
    change ((APOS :: body its ++ [APOS]) ++ next) with (APOS :: ((body its ++ [APOS]) ++ next)).
    rewrite <- app_assoc. change ([APOS] ++ next) with (APOS :: next).
    rewrite seek_end_S.
    change (APOS =? LPAR) with false. change (APOS =? SLASH) with false. change (APOS =? APOS) with true.
    cbv iota.
    assert (Hh : not_apos_head next).
    { destruct next as [|x r]; [exact Logic.I|]. cbn [head_is] in Hn. exact Hn. }
    rewrite (literal_extent its next Hits Hh).
    rewrite app_nil_r, Z.add_0_r. reflexivity.
  - cbn [tok_ok] in Hok.
    apply andb_true_iff in Hok. destruct Hok as [Hok Hn]. apply negb_true_iff in Hn.
    apply andb_true_iff in Hok. destruct Hok as [Hok Hmax]. apply N.leb_le in Hmax.
    apply andb_true_iff in Hok. destruct Hok as [Hok Hlen]. apply negb_true_iff in Hlen.
    apply andb_true_iff in Hok. destruct Hok as [Hws Hds].
    change ((HASH :: ws ++ ds) ++ next) with (HASH :: ((ws ++ ds) ++ next)). rewrite <- app_assoc.
    rewrite seek_end_S.
    change (HASH =? LPAR) with false. change (HASH =? SLASH) with false. change (HASH =? APOS) with false.
    change (HASH =? EQUALS) with false. change (HASH =? HASH) with true. cbv iota zeta.
    rewrite (skip_ws_spaces _ _ Hws).
    destruct ds as [|d0 ds']; [discriminate Hlen|].
    assert (Hd0 : is_digit d0 = true).
    { cbn [forallb] in Hds. apply andb_true_iff in Hds. exact (proj1 Hds). }
    change ((d0 :: ds') ++ next) with (d0 :: (ds' ++ next)).
    rewrite (skip_ws_nonspace _ _ (digit_not_space _ Hd0)). rewrite Hd0.
    change (d0 :: ds' ++ next) with ((d0 :: ds') ++ next).
    rewrite (digits_loop_app (d0 :: ds') next 0 0%nat Hds Hn).
    fold (dval (d0 :: ds')).
    destruct (N.ltb_spec ID_MAX (dval (d0 :: ds'))) as [E|E]; [lia|].
    rewrite Z.add_0_r. reflexivity.
  - cbn [tok_ok] in Hok.
    change ((SLASH :: STAR :: txt ++ [STAR; SLASH]) ++ next) with (SLASH :: STAR :: ((txt ++ [STAR; SLASH]) ++ next)).
    rewrite <- app_assoc. change ([STAR; SLASH] ++ next) with (STAR :: SLASH :: next).
    rewrite seek_end_S.
    change (SLASH =? LPAR) with false. change (SLASH =? SLASH) with true. change (STAR =? STAR) with true. cbv iota.
    rewrite (comment_end_closes _ _ Hok). rewrite app_nil_r, Z.add_0_r. reflexivity.
  - cbn [tok_ok] in Hok. destruct (plain_ok_tests c Hok) as (H1 & H2 & H3 & H4 & H5 & H6).
    cbn [app]. rewrite seek_end_S. rewrite H1, H3, H4, H5, H6, H2.
    rewrite app_nil_r, Z.add_0_r. reflexivity.
Qed.

Lemma refs_of_cons t r : refs_of (t :: r) = refs_of [t] ++ refs_of r.
Proof. destruct t; reflexivity. Qed.

Lemma render_app a b : render (a ++ b) = render a ++ render b.
Proof. unfold render. apply flat_map_app. Qed.

Lemma toks_ok_app a : forall b k, toks_ok (a ++ b) k = toks_ok a (render b ++ k) && toks_ok b k.
Proof.
  induction a as [|t a IH]; intros b k; [reflexivity|].
  cbn [app toks_ok]. rewrite IH, render_app, <- app_assoc, andb_assoc. reflexivity.
Qed.

Lemma rtext_nonempty t : (1 <= length (rtext t))%nat.
Proof. destruct t; cbn [rtext length]; lia. Qed.

Lemma render_length ts : (length ts <= length (render ts))%nat.
Proof.
  induction ts as [|t r IH]; [apply le_n|].
  change (render (t :: r)) with (rtext t ++ render r). rewrite app_length. cbn [length].
  pose proof (rtext_nonempty t). lia.
Qed.

(* a run of tokens that does not close the record *)
Lemma seek_end_tokens ts : forall k f d d' refs,
  toks_ok ts k = true -> walk d ts = Some d' ->
  seek_end (length ts + f) (render ts ++ k) d refs = seek_end f k d' (refs ++ refs_of ts).
Proof.
  induction ts as [|t r IH]; intros k f d d' refs Hok Hw.
  - cbn [walk] in Hw. injection Hw as <-. cbn [length Nat.add render flat_map app refs_of]. rewrite app_nil_r. reflexivity.
  - cbn [toks_ok] in Hok. apply andb_true_iff in Hok. destruct Hok as [Ht Hr].
    change (render (t :: r)) with (rtext t ++ render r). rewrite <- app_assoc.
    cbn [length Nat.add].
    assert (Hw' : walk (d + delta t)%Z r = Some d' /\ match t with KClose => (1 <? d)%Z = true | _ => True end).
    { destruct t; cbn [walk delta] in Hw |- *; rewrite ?Z.add_0_r; try (split; [exact Hw|exact Logic.I]).
      destruct (1 <? d)%Z eqn:E; [|discriminate]. split; [|reflexivity].
      replace (d + -1)%Z with (d - 1)%Z by lia. exact Hw. }
    destruct Hw' as [Hw1 Hd].
    rewrite (seek_end_token t (render r ++ k) (length r + f) d refs Ht Hd).
    rewrite (IH k f _ d' _ Hr Hw1). rewrite <- app_assoc, <- refs_of_cons. reflexivity.
Qed.


(* the separators before a character that is neither white space nor a slash, with the fuel the model uses *)
Lemma skip_sep_seps_fuel s c rest n :
  seps_ok s = true -> is_space c = false -> (c =? SLASH) = false ->
  (length (seps_text s ++ c :: rest) <= n)%nat ->
  skip_sep (S n) (seps_text s ++ c :: rest) = Some (c :: rest).
Proof.
  destruct s as [pairs wsf]. intros Hok Hc Hs Hn.
  apply (skip_sep_le (S (length pairs + 0))).
  - pose proof (seps_pairs_length (pairs, wsf)) as Hl. cbn [fst] in Hl. rewrite app_length in Hn. lia.
  - apply skip_sep_seps; assumption.
Qed.

(* the closing parenthesis of the record, separators, semicolon *)
Lemma seek_end_close s rest f refs :
  seps_ok s = true ->
  seek_end (S f) (RPAR :: seps_text s ++ SEMI :: rest) 1 refs = Some (refs, rest).
Proof.
  intros Hok. rewrite seek_end_S.
  change (RPAR =? LPAR) with false. change (RPAR =? SLASH) with false. change (RPAR =? APOS) with false.
  change (RPAR =? EQUALS) with false. change (RPAR =? HASH) with false. change (RPAR =? RPAR) with true.
  cbv iota zeta. change ((1 - 1 =? 0)%Z) with true. cbv iota.
  rewrite (skip_sep_seps_fuel s SEMI rest _ Hok); [|reflexivity|reflexivity|apply le_n].
  change (SEMI =? SEMI) with true. reflexivity.
Qed.

(* ---------------- readInstanceNumber ---------------- *)
Lemma read_inst_number_ok s0 ws1 ds s1 tail n :
  seps_ok s0 = true -> forallb is_space ws1 = true ->
  forallb is_digit ds = true -> Nat.eqb (length ds) 0 = false -> Nat.leb (length ds) ID_MAXLEN = true ->
  (0 <? dval ds) = true -> (dval ds <=? ID_MAX) = true ->
  seps_ok s1 = true ->
  (length (seps_text s0 ++ HASH :: ws1 ++ ds ++ seps_text s1 ++ EQUALS :: tail) <= n)%nat ->
  read_inst_number (S n) (seps_text s0 ++ HASH :: ws1 ++ ds ++ seps_text s1 ++ EQUALS :: tail) = RSome (dval ds) tail.
Proof.
  intros H0 Hw1 Hds Hne Hlen Hpos Hmax H1 Hn.
  unfold read_inst_number.
  rewrite (skip_sep_seps_fuel s0 HASH _ n H0); [|reflexivity|reflexivity|exact Hn].
  change (HASH =? HASH) with true. cbv iota.
  rewrite (skip_ws_spaces _ _ Hw1).
  destruct ds as [|d0 ds']; [discriminate Hne|].
  assert (Hd0 : is_digit d0 = true).
  { cbn [forallb] in Hds. apply andb_true_iff in Hds. exact (proj1 Hds). }
  change ((d0 :: ds') ++ ?m) with (d0 :: (ds' ++ m)).
  rewrite (skip_ws_nonspace _ _ (digit_not_space _ Hd0)).
  change (d0 :: ds' ++ ?m) with ((d0 :: ds') ++ m).
  rewrite (digits_loop_app (d0 :: ds') _ 0 0%nat Hds (seps_head_not_digit s1 EQUALS tail H1 eq_refl)).
  fold (dval (d0 :: ds')). cbn [Nat.add].
  apply Nat.leb_le in Hlen.
  destruct (Nat.ltb_spec ID_MAXLEN (length (d0 :: ds'))) as [E|E]; [lia|].
  assert (Hn1 : (length (seps_text s1 ++ EQUALS :: tail) <= n)%nat).
  { rewrite !app_length in Hn. cbn [length] in Hn. rewrite !app_length in Hn. rewrite app_length. cbn [length] in *. lia. }
  rewrite (skip_sep_seps_fuel s1 EQUALS tail n H1); [|reflexivity|reflexivity|exact Hn1].
  change (EQUALS =? EQUALS) with true. cbn [length Nat.ltb Nat.leb andb].
  apply N.ltb_lt in Hpos. apply N.leb_le in Hmax.
  destruct (N.eqb_spec (dval (d0 :: ds')) 0) as [E0|E0]; [lia|].
  rewrite N.min_l by exact Hmax. reflexivity.
Qed.

(* ---------------- nextInstance ---------------- *)
Lemma space_not_kw c : is_space c = true -> is_kw_char c = false.
Proof. intros H. destruct (is_kw_char c) eqn:E; [|reflexivity]. rewrite (kw_char_not_space _ E) in H. discriminate. Qed.

Lemma pinst_text_shape p rest :
  pinst_text p ++ rest =
  seps_text (pi_s0 p) ++ HASH :: pi_ws1 p ++ pi_ds p ++ seps_text (pi_s1 p) ++ EQUALS ::
    (pi_ws2 p ++ pi_kw p ++ render (pi_rec p) ++ RPAR :: seps_text (pi_s2 p) ++ SEMI :: rest).
Proof.
  unfold pinst_text. rewrite render_app. change (render [KClose]) with [RPAR].
  repeat (rewrite <- app_assoc || rewrite <- app_comm_cons). reflexivity.
Qed.


Lemma tok_ok_ext t a rest : a <> [] -> tok_ok t (a ++ rest) = tok_ok t a.
Proof. intros Ha. destruct t; cbn [tok_ok]; rewrite ?(head_is_app _ a rest Ha); reflexivity. Qed.

Lemma toks_ok_ext ts : forall k rest, k <> [] -> toks_ok ts (k ++ rest) = toks_ok ts k.
Proof.
  induction ts as [|t r IH]; intros k rest Hk; [reflexivity|].
  cbn [toks_ok]. rewrite (IH k rest Hk). rewrite app_assoc.
  rewrite (tok_ok_ext t (render r ++ k) rest); [reflexivity|].
  intros E. apply app_eq_nil in E. destruct E as [_ E]. exact (Hk E).
Qed.

Theorem next_instance_wellformed p rest :
  pinst_ok p = true ->
  next_instance (pinst_text p ++ rest) = NInst (dval (pi_ds p)) (pi_kw p) (refs_of (pi_rec p)) rest.
Proof.
  intros Hok. unfold pinst_ok in Hok.
  repeat match type of Hok with (_ && _) = true => apply andb_true_iff in Hok; let H := fresh "C" in destruct Hok as [Hok H] end.
  apply negb_true_iff in C9.
  rewrite pinst_text_shape. unfold next_instance.
  set (tail := pi_ws2 p ++ pi_kw p ++ render (pi_rec p) ++ RPAR :: seps_text (pi_s2 p) ++ SEMI :: rest).
  set (whole := seps_text (pi_s0 p) ++ HASH :: pi_ws1 p ++ pi_ds p ++ seps_text (pi_s1 p) ++ EQUALS :: tail).
  rewrite (read_inst_number_ok (pi_s0 p) (pi_ws1 p) (pi_ds p) (pi_s1 p) tail (length whole) Hok C11 C10 C9 C8 C7 C6 C5 (le_n _)
           : read_inst_number (S (length whole)) whole = RSome (dval (pi_ds p)) tail).
  (* the keyword *)
  set (after := RPAR :: seps_text (pi_s2 p) ++ SEMI :: rest).
  destruct (render (pi_rec p)) as [|c0 r0] eqn:ER; [discriminate C2|]. cbn [head_is] in C2.
  assert (Hc0 : is_space c0 = false \/ pi_kw p <> []).
  { destruct (pi_kw p) as [|a kw'].
    - left. cbn [length Nat.eqb negb] in C2. rewrite andb_false_r, orb_false_r in C2.
      apply N.eqb_eq in C2. subst c0. reflexivity.
    - right. discriminate. }
  assert (Hfacts : is_kw_char c0 = false /\ (c0 =? BANG) = false /\ (c0 =? SLASH) = false /\ is_kw_delim c0 = true).
  { apply orb_true_iff in C2. destruct C2 as [E|E].
    - apply N.eqb_eq in E. subst c0. repeat split; reflexivity.
    - apply andb_true_iff in E. destruct E as [Es _]. repeat split.
      + apply space_not_kw. exact Es.
      + destruct (N.eqb_spec c0 BANG) as [->|]; [discriminate Es|reflexivity].
      + destruct (N.eqb_spec c0 SLASH) as [->|]; [discriminate Es|reflexivity].
      + unfold is_kw_delim. rewrite Es. rewrite !orb_true_r. reflexivity. }
  destruct Hfacts as (F1 & F2 & F3 & F4).
  assert (Hskip : skip_ws tail = pi_kw p ++ c0 :: r0 ++ after).
  { unfold tail. rewrite (skip_ws_spaces _ _ C4).
    destruct (pi_kw p) as [|a kw'] eqn:EK.
    - cbn [app]. apply skip_ws_nonspace. destruct Hc0 as [H|H]; [exact H|congruence].
    - cbn [forallb] in C3. apply andb_true_iff in C3. destruct C3 as [Ha _].
      cbn [app]. apply skip_ws_nonspace. apply kw_char_not_space. exact Ha. }
  rewrite Hskip.
  assert (Hkw : keyword (S (length whole)) (pi_kw p ++ c0 :: r0 ++ after) [] = Some (pi_kw p, c0 :: r0 ++ after)).
  { apply (keyword_le (S (length (pi_kw p) + 0))).
    - unfold whole, tail. repeat (rewrite app_length || cbn [length]). lia.
    - rewrite (keyword_reads (pi_kw p) c0 (r0 ++ after) [] 0%nat C3 F1 F2 F3 F4). reflexivity. }
  rewrite Hkw.
  (* the record *)
  change (c0 :: r0 ++ after) with ((c0 :: r0) ++ after). rewrite <- ER.
  destruct (walk 0 (pi_rec p)) as [d1|] eqn:EW; [|discriminate C0]. apply Z.eqb_eq in C0. subst d1.
  rewrite toks_ok_app in C1. apply andb_true_iff in C1. destruct C1 as [C1 _].
  change (render [KClose]) with [RPAR] in C1.
  assert (Htoks : toks_ok (pi_rec p) after = true).
  { unfold after. change (RPAR :: seps_text (pi_s2 p) ++ SEMI :: rest) with ([RPAR] ++ seps_text (pi_s2 p) ++ SEMI :: rest).
    replace ([RPAR] ++ seps_text (pi_s2 p) ++ SEMI :: rest) with (([RPAR] ++ seps_text (pi_s2 p) ++ [SEMI]) ++ rest)
      by (rewrite <- !app_assoc; reflexivity).
    rewrite toks_ok_ext; [exact C1|discriminate]. }
  assert (Hseek : seek_end (length (pi_rec p) + 1) (render (pi_rec p) ++ after) 0 [] = Some (refs_of (pi_rec p), rest)).
  { rewrite (seek_end_tokens (pi_rec p) after 1%nat 0%Z 1%Z [] Htoks EW). cbn [app].
    unfold after. apply seek_end_close. exact C. }
  assert (Hle : (length (pi_rec p) + 1 <= length (render (pi_rec p) ++ after))%nat).
  { rewrite app_length. unfold after. cbn [length]. pose proof (render_length (pi_rec p)). lia. }
  rewrite (seek_end_le _ _ _ _ _ _ Hle Hseek). reflexivity.
Qed.
(* unfold after. cbn [length]. pose proof (render_length (pi_rec p)). lia.
Qed.
*)

(* ---------------- the whole section ---------------- *)
Lemma pinst_text_nonempty p : (1 <= length (pinst_text p))%nat.
Proof. unfold pinst_text. rewrite app_length. cbn [length]. lia. Qed.

Lemma section_length ps : (length ps <= length (flat_map pinst_text ps))%nat.
Proof.
  induction ps as [|p ps IH]; [apply le_n|].
  cbn [flat_map length]. rewrite app_length. pose proof (pinst_text_nonempty p). lia.
Qed.

Lemma locate_all_wellformed ps : forall tail f,
  forallb pinst_ok ps = true -> next_instance tail = NNone -> (length ps <= f)%nat ->
  locate_all (S f) (flat_map pinst_text ps ++ tail) = (map pinst_summary ps, false, tail).
Proof.
  induction ps as [|p ps IH]; intros tail f Hok Ht Hf.
  - cbn [flat_map app locate_all map]. rewrite Ht. reflexivity.
  - cbn [forallb] in Hok. apply andb_true_iff in Hok. destruct Hok as [Hp Hps].
    cbn [flat_map]. rewrite <- app_assoc.
    cbn [locate_all]. rewrite (next_instance_wellformed p _ Hp).
    destruct f as [|f']; [cbn [length] in Hf; lia|].
    rewrite (IH tail f' Hps Ht); [reflexivity|]. cbn [length] in Hf. lia.
Qed.

(* every well-formed instance is found, in file order, under its own name and keyword, with the names it mentions *)
Theorem scan_section_wellformed ps tail :
  forallb pinst_ok ps = true -> next_instance tail = NNone ->
  scan_section (flat_map pinst_text ps ++ tail) = (map pinst_summary ps, false, tail).
Proof.
  intros Hok Ht. unfold scan_section. apply locate_all_wellformed; try assumption.
  rewrite app_length. pose proof (section_length ps). lia.
Qed.

(* ENDSEC after separators is where the scan stops, and what the constructor accepts as the end *)
Lemma endsec_stops s x : seps_ok s = true -> next_instance (seps_text s ++ ENDSEC ++ x) = NNone.
Proof.
  intros Hok. unfold next_instance, read_inst_number. change (ENDSEC ++ x) with (69 :: ([78; 68; 83; 69; 67] ++ x)).
  rewrite (skip_sep_seps_fuel s 69 _ _ Hok); [|reflexivity|reflexivity|apply le_n].
  reflexivity.
Qed.

Lemma endsec_accepted s ws x : seps_ok s = true -> forallb is_space ws = true ->
  at_endsec (seps_text s ++ ENDSEC ++ ws ++ SEMI :: x) = true.
Proof.
  intros Hok Hws. unfold at_endsec. change (ENDSEC ++ ws ++ SEMI :: x) with (69 :: ([78; 68; 83; 69; 67] ++ ws ++ SEMI :: x)).
  rewrite (skip_sep_seps_fuel s 69 _ _ Hok); [|reflexivity|reflexivity|apply le_n].
  change (starts_with ENDSEC (69 :: [78; 68; 83; 69; 67] ++ ws ++ SEMI :: x)) with (Some (ws ++ SEMI :: x)).
  cbv iota beta. rewrite (skip_ws_spaces _ _ Hws). rewrite skip_ws_nonspace by reflexivity. reflexivity.
Qed.

Corollary data_section_indexed ps s ws x :
  forallb pinst_ok ps = true -> seps_ok s = true -> forallb is_space ws = true ->
  let tail := seps_text s ++ ENDSEC ++ ws ++ SEMI :: x in
  scan_section (flat_map pinst_text ps ++ tail) = (map pinst_summary ps, false, tail) /\ at_endsec tail = true.
Proof.
  intros Hok Hs Hws tail. split.
  - apply scan_section_wellformed; [exact Hok|]. apply endsec_stops. exact Hs.
  - apply endsec_accepted; assumption.
Qed.

(* ---------------- from the text to the tables ---------------- *)
From Coq Require Import FinFun.
From SC Require Import Lazy Lazy_Proofs.

Lemma scan_insts_wellformed ps s ws x :
  forallb pinst_ok ps = true -> seps_ok s = true -> forallb is_space ws = true ->
  scan_insts (flat_map pinst_text ps ++ seps_text s ++ ENDSEC ++ ws ++ SEMI :: x)
  = map (fun p => (Z.of_N (dval (pi_ds p)), map Z.of_N (refs_of (pi_rec p)))) ps.
Proof.
  intros Hok Hs Hws. unfold scan_insts.
  destruct (data_section_indexed ps s ws x Hok Hs Hws) as [E _]. rewrite E. cbn [fst].
  rewrite map_map. reflexivity.
Qed.

Theorem forward_table_from_text ps s ws x :
  forallb pinst_ok ps = true -> seps_ok s = true -> forallb is_space ws = true ->
  NoDup (map (fun p => dval (pi_ds p)) ps) ->
  forall p, In p ps ->
    tfind (fst (tables_of_text (flat_map pinst_text ps ++ seps_text s ++ ENDSEC ++ ws ++ SEMI :: x))) (Z.of_N (dval (pi_ds p)))
    = map Z.of_N (refs_of (pi_rec p)).
Proof.
  intros Hok Hs Hws Hnd p Hin. unfold tables_of_text. rewrite (scan_insts_wellformed ps s ws x Hok Hs Hws).
  set (insts := map (fun p0 => (Z.of_N (dval (pi_ds p0)), map Z.of_N (refs_of (pi_rec p0)))) ps).
  assert (Hnd' : NoDup (map fst insts)).
  { unfold insts. rewrite map_map. cbn [fst].
    rewrite <- (map_map (fun p0 => dval (pi_ds p0)) Z.of_N).
    apply FinFun.Injective_map_NoDup; [|exact Hnd]. intros a b. apply N2Z.inj. }
  destruct (build_spec insts Hnd') as (_ & Hfwd & _).
  apply Hfwd. unfold insts. apply (in_map (fun p0 => (Z.of_N (dval (pi_ds p0)), map Z.of_N (refs_of (pi_rec p0)))) ps p Hin).
Qed.
