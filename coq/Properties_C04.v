(* C04 -- all EXPRESS tools give the same, correct verdict on a schema.
   Proved over coq/ExpErr.v with the error table regenerated from error.c/error.h
   on every run: for ANY sequence of diagnostics raised while parsing, resolving
   and in the tool's back end, and ANY -w/-i configuration:
   - the exit status is non-zero exactly when an ERROR line was printed;
   - the back end (the only part in which the four tools differ) runs only when
     parsing and resolution printed no ERROR, so no artefact is produced otherwise;
   - up to the back end the verdict does not depend on the tool;
   - the sub/supertype cycle check of resolve.c, whenever it answers, answers
     exactly "this entity is (transitively) a subtype of itself".
   Which diagnostics the resolver raises for a given schema is NOT modelled (apart
   from the cycle check); that is the fault-injection correspondence of tools/c04.py. *)
From Coq Require Import List ZArith Bool.
From SC.gen Require Import ErrTable.
From SC Require Import ExpErr ExpErr_Proofs.
Import ListNotations.
Local Open Scope Z_scope.

Theorem c04_exit_iff_error : forall ov parse resolve backend,
  let v := main ov parse resolve backend in
  v_status v <> 0 <-> has_error (printed (v_state v)).
Proof. exact main_exit_iff_error. Qed.
Print Assumptions c04_exit_iff_error.

Theorem c04_backend_only_after_clean_front_end : forall ov parse resolve backend,
  v_backend_ran (main ov parse resolve backend) = true ->
  ~ has_error (printed (run_phase ov (run_phase ov est0 parse) resolve)).
Proof. exact main_backend_gated. Qed.
Print Assumptions c04_backend_only_after_clean_front_end.

Theorem c04_tools_agree_up_to_backend : forall ov parse resolve b1 b2,
  v_backend_ran (main ov parse resolve b1) = v_backend_ran (main ov parse resolve b2) /\
  (v_backend_ran (main ov parse resolve b1) = false -> main ov parse resolve b1 = main ov parse resolve b2).
Proof. exact main_front_end_same. Qed.
Print Assumptions c04_tools_agree_up_to_backend.

Theorem c04_cycle_check_correct : forall g e b,
  cyc_from_opt g e = Some b -> (b = true <-> greach g e e).
Proof. exact cyc_from_correct. Qed.
Print Assumptions c04_cycle_check_correct.

Example c04_example :
  (* the graph on which the unrepaired check (return 0 instead of continue) stayed silent *)
  let g := [(0, [3]); (3, [1; 2; 4]); (1, [2]); (2, []); (4, [0; 2])] in
  cyc_from_opt g 0 = Some true /\ cyc_from_opt g 2 = Some false /\ cyc_any g = true /\
  v_status (main (process_options []) [] [(45, 3)] []) = 1 /\
  v_backend_ran (main (process_options [(true, CLASS_downcast)]) [] [(14, 3)] []) = true /\
  v_status (main (process_options [(true, CLASS_downcast)]) [] [(14, 3)] []) = 0.
Proof. vm_compute. repeat split. Qed.
