(* Proofs about GenFiles.v (C17). *)
From Coq Require Import List NArith Bool Lia Permutation.
From SC Require Import gen.ScannerRule GenFiles.
Import ListNotations.
Local Open Scope N_scope.

(* ---------- the two rules agree on every type the front end lets through ---------- *)
Lemma rules_agree k h a :
  kmem k wf_kinds = true -> scanner_lists_type k h = gen_creates_type k h a.
Proof. destruct k, h, a; vm_compute; intros H; try reflexivity; discriminate H. Qed.

(* ... and only there: outside the well-formed kinds the two programs differ, so the
   hypothesis is needed (the resolver rejects such a declaration: PE061, tested) *)
Lemma rules_differ_outside :
  exists k h a, kmem k wf_kinds = false /\ scanner_lists_type k h <> gen_creates_type k h a.
Proof. exists k_entity, false, false. vm_compute. split; [reflexivity|discriminate]. Qed.

Lemma decl_files_agree d : wf_decl d = true -> scanner_decl_files d = gen_decl_files d.
Proof.
  destruct d as [n|n k h a]; cbn [wf_decl scanner_decl_files gen_decl_files]; intros H; [reflexivity|].
  rewrite (rules_agree k h a H). reflexivity.
Qed.

(* ---------- fixed per-schema files ---------- *)
Definition tmpl := (list N * bool * list N)%type.
Definition tmpl_dec (a b : tmpl) : {a = b} + {a <> b}.
Proof. repeat decide equality. Defined.
Definition tmem (x : tmpl) (l : list tmpl) : bool := existsb (fun y => if tmpl_dec x y then true else false) l.
Definition tincl (l1 l2 : list tmpl) : bool := forallb (fun x => tmem x l2) l1.

Lemma tmem_In x l : tmem x l = true -> In x l.
Proof.
  unfold tmem. rewrite existsb_exists. intros [y [Hy E]].
  destruct (tmpl_dec x y) as [->|]; [exact Hy|discriminate].
Qed.
Lemma tincl_incl l1 l2 : tincl l1 l2 = true -> incl l1 l2.
Proof.
  unfold tincl. rewrite forallb_forall. intros H x Hx. apply tmem_In, H, Hx.
Qed.

Definition scanner_templates := scanner_misc_hdrs ++ scanner_misc_impls ++ scanner_unity_impls.
Definition gen_templates := gen_fixed ++ gen_unity_impls.

Lemma templates_same : incl gen_templates scanner_templates /\ incl scanner_templates gen_templates.
Proof. split; apply tincl_incl; vm_compute; reflexivity. Qed.

Lemma fixed_agree schema f : In f (gen_fixed_files schema) <-> In f (scanner_fixed schema).
Proof.
  unfold gen_fixed_files, scanner_fixed. fold scanner_templates gen_templates.
  rewrite !in_map_iff. destruct templates_same as [H1 H2].
  split; intros [t [E Ht]]; exists t; (split; [exact E|]); [apply H1|apply H2]; exact Ht.
Qed.

(* the only files the generator writes that the scanner does not list: the two unity headers,
   included by nothing but the unity sources *)
Lemma aux_not_listed : forall t, In t gen_unity_hdrs -> ~ In t scanner_templates.
Proof.
  intros t Ht Hs.
  assert (E : forallb (fun x => negb (tmem x scanner_templates)) gen_unity_hdrs = true) by (vm_compute; reflexivity).
  rewrite forallb_forall in E. specialize (E t Ht).
  assert (tmem t scanner_templates = true).
  { unfold tmem. rewrite existsb_exists. exists t. split; [exact Hs|]. destruct (tmpl_dec t t); congruence. }
  rewrite H in E. discriminate.
Qed.

(* ---------- the file sets ---------- *)
Lemma flat_map_agree ds :
  Forall (fun d => wf_decl d = true) ds ->
  flat_map scanner_decl_files ds = flat_map gen_decl_files ds.
Proof.
  induction 1 as [|d ds Hd _ IH]; cbn [flat_map]; [reflexivity|].
  rewrite IH, (decl_files_agree d Hd). reflexivity.
Qed.

Lemma in_flat_map_perm {A B} (f : A -> list B) l l' x :
  Permutation l l' -> In x (flat_map f l) -> In x (flat_map f l').
Proof.
  intros P. rewrite !in_flat_map. intros [d [Hd Hx]]. exists d. split; [|exact Hx].
  eapply Permutation_in; eassumption.
Qed.

Theorem file_sets_equal schema ds ds' :
  Forall (fun d => wf_decl d = true) ds ->
  Permutation ds ds' ->        (* the two programs walk the declarations in different orders *)
  forall f, In f (gen_files schema ds') <->
            (In f (scanner_files schema ds) \/ In f (gen_aux_files schema)).
Proof.
  intros Hwf P f. unfold gen_files, scanner_files. rewrite !in_app_iff, fixed_agree.
  rewrite (flat_map_agree ds Hwf).
  split.
  - intros [H|[H|H]]; [left; left|left; right; exact H|right; exact H].
    eapply in_flat_map_perm; [apply Permutation_sym; exact P|exact H].
  - intros [[H|H]|H]; [left|right; left; exact H|right; right; exact H].
    eapply in_flat_map_perm; [exact P|exact H].
Qed.

(* ---------- no two declarations map to the same file ---------- *)
Lemma to_upper_lower_inj c c' : is_lower c = true -> is_lower c' = true -> to_upper c = to_upper c' -> c = c'.
Proof.
  unfold to_upper. intros H H'. rewrite H, H'. unfold is_lower in *.
  apply andb_prop in H. apply andb_prop in H'. destruct H as [H _], H' as [H' _].
  apply N.leb_le in H. apply N.leb_le in H'. lia.
Qed.

Lemma to_lower_id c : is_upper c = false -> to_lower c = c.
Proof. unfold to_lower. intros ->. reflexivity. Qed.

Lemma map_to_lower_id l : forallb (fun c => negb (is_upper c)) l = true -> map to_lower l = l.
Proof.
  induction l as [|c l IH]; cbn [forallb map]; [reflexivity|].
  intros H. apply andb_prop in H. destruct H as [Hc Hl]. rewrite IH by exact Hl.
  rewrite to_lower_id; [reflexivity|]. destruct (is_upper c); [discriminate|reflexivity].
Qed.

Lemma lower_name_cons n : lower_name n = true ->
  exists c r, n = c :: r /\ is_lower c = true /\ forallb (fun c => negb (is_upper c)) n = true.
Proof.
  unfold lower_name. destruct n as [|c r]; [discriminate|]. intros H.
  apply andb_prop in H. destruct H as [H _]. apply andb_prop in H. destruct H as [H1 H2].
  exists c, r. auto.
Qed.

Lemma class_name_inj n n' : lower_name n = true -> lower_name n' = true -> class_name n = class_name n' -> n = n'.
Proof.
  intros H H'. destruct (lower_name_cons n H) as [c [r [-> [Hc Hl]]]].
  destruct (lower_name_cons n' H') as [c' [r' [-> [Hc' Hl']]]].
  cbn [class_name]. intros E. apply app_inv_head in E. injection E as E1 E2.
  cbn [forallb] in Hl, Hl'. apply andb_prop in Hl. apply andb_prop in Hl'.
  rewrite !map_to_lower_id in E2 by tauto.
  f_equal; [apply to_upper_lower_inj; assumption|exact E2].
Qed.

Lemma type_name_inj n n' : lower_name n = true -> lower_name n' = true -> type_name n = type_name n' -> n = n'.
Proof.
  intros H H'. destruct (lower_name_cons n H) as [c [r [-> [Hc _]]]].
  destruct (lower_name_cons n' H') as [c' [r' [-> [Hc' _]]]].
  cbn [type_name]. intros E. apply app_inv_head in E. injection E as E1 E2.
  f_equal; [apply to_upper_lower_inj; assumption|exact E2].
Qed.

Lemma type_name_app n s : n <> [] -> type_name (n ++ s) = type_name n ++ s.
Proof. destruct n as [|c r]; [congruence|]. intros _. cbn [type_name app]. rewrite <- app_assoc. reflexivity. Qed.

Lemma fmt_inj f x y : fmt f x = fmt f y -> x = y.
Proof. unfold fmt. intros E. apply app_inv_head in E. apply app_inv_tail in E. exact E. Qed.

Definition files_of_kind (k : kind) := kind_eqb k k_enumeration || kind_eqb k k_select.

Lemma listed_kinds k h : kmem k wf_kinds = true -> scanner_lists_type k h = true ->
  h = false /\ (k = k_enumeration \/ k = k_select).
Proof. destruct k, h; vm_compute; intros H1 H2; try discriminate; auto. Qed.

(* two listed types share their header exactly when they are the same declaration or an
   enumeration n meets a select named n_var *)
Lemma type_hdr_collision k n k' n' :
  lower_name n = true -> lower_name n' = true ->
  (k = k_enumeration \/ k = k_select) -> (k' = k_enumeration \/ k' = k_select) ->
  fmt fmt_type_hdr (ctype k n) = fmt fmt_type_hdr (ctype k' n') ->
  (k = k' /\ n = n') \/
  (k = k_enumeration /\ k' = k_select /\ n' = n ++ CTYPE_ENUM_SUFFIX) \/
  (k = k_select /\ k' = k_enumeration /\ n = n' ++ CTYPE_ENUM_SUFFIX).
Proof.
  intros Hn Hn' Hk Hk' E. apply fmt_inj in E.
  assert (Ne : n <> []) by (destruct n; [discriminate|congruence]).
  assert (Ne' : n' <> []) by (destruct n'; [discriminate|congruence]).
  destruct Hk as [->| ->], Hk' as [->| ->]; unfold ctype in E; cbn [kind_eqb kind_id N.eqb Pos.eqb] in E.
  - left. split; [reflexivity|]. apply app_inv_tail in E. apply type_name_inj; assumption.
  - right; left. repeat split. rewrite <- type_name_app in E by exact Ne.
    destruct (lower_name_cons n Hn) as [c [r [-> [Hc _]]]].
    destruct (lower_name_cons n' Hn') as [c' [r' [-> [Hc' _]]]].
    cbn [type_name app] in E. apply app_inv_head in E. injection E as E1 E2.
    apply to_upper_lower_inj in E1; try assumption. subst. reflexivity.
  - right; right. repeat split. rewrite <- type_name_app in E by exact Ne'.
    destruct (lower_name_cons n Hn) as [c [r [-> [Hc _]]]].
    destruct (lower_name_cons n' Hn') as [c' [r' [-> [Hc' _]]]].
    cbn [type_name app] in E. apply app_inv_head in E. injection E as E1 E2.
    apply to_upper_lower_inj in E1; try assumption. subst. reflexivity.
  - left. split; [reflexivity|]. apply type_name_inj; assumption.
Qed.

(* the collision is real: the model exhibits it *)
Lemma type_hdr_collision_witness :
  type_files k_enumeration [120] = type_files k_select ([120] ++ CTYPE_ENUM_SUFFIX).
Proof. vm_compute. reflexivity. Qed.

Lemma entity_hdr_inj n n' : lower_name n = true -> lower_name n' = true ->
  fmt fmt_entity_hdr (class_name n) = fmt fmt_entity_hdr (class_name n') -> n = n'.
Proof. intros H H' E. apply fmt_inj in E. apply class_name_inj; assumption. Qed.

(* entity files and type files live in different directories *)
Lemma entity_type_disjoint n k n' f : In f (entity_files n) -> In f (type_files k n') -> False.
Proof.
  unfold entity_files, type_files. cbn [In].
  intros [<-|[<-|[]]] [E|[E|[]]]; vm_compute in E; discriminate E.
Qed.

(* a header is never an implementation file: they end differently *)
Lemma hdr_impl_differ (a a' x y : list N) : a ++ x ++ [46; 104] = a' ++ y ++ [46; 99; 99] -> False.
Proof.
  intros E.
  replace (a ++ x ++ [46; 104]) with ((a ++ x ++ [46]) ++ [104]) in E by (rewrite <- !app_assoc; reflexivity).
  replace (a' ++ y ++ [46; 99; 99]) with ((a' ++ y ++ [46; 99]) ++ [99]) in E by (rewrite <- !app_assoc; reflexivity).
  apply app_inj_tail in E. destruct E as [_ E]. discriminate E.
Qed.

Lemma fmt_impl_inj_type k n k' n' :
  fmt fmt_type_impl (ctype k n) = fmt fmt_type_impl (ctype k' n') ->
  fmt fmt_type_hdr (ctype k n) = fmt fmt_type_hdr (ctype k' n').
Proof. intros E. apply fmt_inj in E. rewrite E. reflexivity. Qed.

Lemma fmt_impl_inj_entity n n' :
  fmt fmt_entity_impl (class_name n) = fmt fmt_entity_impl (class_name n') ->
  fmt fmt_entity_hdr (class_name n) = fmt fmt_entity_hdr (class_name n').
Proof. intros E. apply fmt_inj in E. rewrite E. reflexivity. Qed.

Definition var_collision (d d' : decl) : Prop :=
  match d, d' with
  | DType n k _ _, DType n' k' _ _ =>
      (k = k_enumeration /\ k' = k_select /\ n' = n ++ CTYPE_ENUM_SUFFIX) \/
      (k = k_select /\ k' = k_enumeration /\ n = n' ++ CTYPE_ENUM_SUFFIX)
  | _, _ => False
  end.
Definition same_decl (d d' : decl) : Prop :=
  match d, d' with
  | DEnt n, DEnt n' => n = n'
  | DType n k _ _, DType n' k' _ _ => n = n' /\ k = k'
  | _, _ => False
  end.

Theorem shared_file_characterised d d' f :
  wf_decl d = true -> wf_decl d' = true ->
  lower_name (decl_name d) = true -> lower_name (decl_name d') = true ->
  In f (scanner_decl_files d) -> In f (scanner_decl_files d') ->
  same_decl d d' \/ var_collision d d'.
Proof.
  intros W W' L L' Hf Hf'.
  destruct d as [n|n k h a], d' as [n'|n' k' h' a']; cbn [scanner_decl_files decl_name wf_decl] in *.
  - left. cbn [same_decl]. unfold entity_files in Hf, Hf'. cbn [In] in Hf, Hf'.
    destruct Hf as [<-|[<-|[]]], Hf' as [E|[E|[]]].
    + apply entity_hdr_inj in E; auto.
    + exfalso. unfold fmt, fmt_entity_hdr, fmt_entity_impl in E. cbn [fst snd] in E. symmetry in E. eapply hdr_impl_differ; exact E.
    + exfalso. unfold fmt, fmt_entity_hdr, fmt_entity_impl in E. cbn [fst snd] in E. eapply hdr_impl_differ; exact E.
    + apply fmt_impl_inj_entity in E. apply entity_hdr_inj in E; auto.
  - exfalso. destruct (scanner_lists_type k' h'); [|destruct Hf'].
    eapply entity_type_disjoint; eassumption.
  - exfalso. destruct (scanner_lists_type k h); [|destruct Hf].
    eapply entity_type_disjoint; eassumption.
  - destruct (scanner_lists_type k h) eqn:S; [|destruct Hf].
    destruct (scanner_lists_type k' h') eqn:S'; [|destruct Hf'].
    destruct (listed_kinds k h W S) as [_ K]. destruct (listed_kinds k' h' W' S') as [_ K'].
    assert (E : fmt fmt_type_hdr (ctype k n) = fmt fmt_type_hdr (ctype k' n')).
    { unfold type_files in Hf, Hf'. cbn [In] in Hf, Hf'.
      destruct Hf as [<-|[<-|[]]], Hf' as [E|[E|[]]].
      - symmetry; exact E.
      - exfalso. unfold fmt, fmt_type_hdr, fmt_type_impl in E. cbn [fst snd] in E. symmetry in E. eapply hdr_impl_differ; exact E.
      - exfalso. unfold fmt, fmt_type_hdr, fmt_type_impl in E. cbn [fst snd] in E. eapply hdr_impl_differ; exact E.
      - symmetry. apply fmt_impl_inj_type. exact E. }
    destruct (type_hdr_collision k n k' n' L L' K K' E) as [[-> ->]|C].
    + left. cbn [same_decl]. auto.
    + right. exact C.
Qed.
