From Coq Require Import List ZArith Bool Lia.
From SC Require Import gen.ExpBuffers ExpSafe.
Import ListNotations.
Local Open Scope Z_scope.

(* the regenerated constants describe a guarded stack *)
Lemma guards_on : push_guarded = true /\ push_dummy_guarded = true /\ 1 <= guard_margin /\ guard_margin <= MAX_SCOPE_DEPTH.
Proof. vm_compute. repeat split; discriminate. Qed.

(* whatever the sequence of scope events (any length, any nesting), every position the stack
   pointer reaches stays below MAX_SCOPE_DEPTH *)
Lemma sreach_bounded es : forall i, i <= MAX_SCOPE_DEPTH - guard_margin ->
  forall x, In x (sreach i es) -> x <= MAX_SCOPE_DEPTH - guard_margin.
Proof.
  destruct guards_on as (G1 & G2 & G3 & G4).
  induction es as [|e r IH]; intros i Hi x Hx; cbn [sreach] in Hx.
  - destruct Hx as [<-|[]]. exact Hi.
  - destruct e; unfold sstep in Hx; rewrite ?G1, ?G2 in Hx; cbn [andb] in Hx.
    + unfold guard_fires in Hx. destruct (Z.leb_spec (MAX_SCOPE_DEPTH - guard_margin) i) as [L|L].
      * destruct Hx as [<-|[]]. exact Hi.
      * destruct Hx as [<-|Hx]; [exact Hi|]. eapply IH; [|exact Hx]. lia.
    + unfold guard_fires in Hx. destruct (Z.leb_spec (MAX_SCOPE_DEPTH - guard_margin) i) as [L|L].
      * destruct Hx as [<-|[]]. exact Hi.
      * destruct Hx as [<-|Hx]; [exact Hi|]. eapply IH; [|exact Hx]. lia.
    + destruct Hx as [<-|Hx]; [exact Hi|]. eapply IH; [|exact Hx]. lia.
Qed.

Theorem scope_stack_in_bounds es x : In x (sreach 0 es) -> x < MAX_SCOPE_DEPTH.
Proof.
  intros H. destruct guards_on as (_ & _ & G3 & G4).
  pose proof (sreach_bounded es 0 ltac:(lia) x H). lia.
Qed.

(* without the guard the same model overflows: 20 nested scopes *)
Definition sstep_unguarded (i : Z) (e : sev) : Z := match e with Pop => i - 1 | _ => i + 1 end.
Lemma unguarded_overflows : fold_left sstep_unguarded (repeat Push 20) 0 >= MAX_SCOPE_DEPTH.
Proof. vm_compute. discriminate. Qed.

(* the remark copies never write past the buffer, whatever the length of the remark *)
Theorem remark_copies_in_bounds len : 0 <= len ->
  semicolon_extent len <= COMMENT_BUFFER /\ save_extent len <= COMMENT_BUFFER.
Proof.
  intros H. unfold semicolon_extent, save_extent.
  assert (E : semicolon_copy = CopyBounded) by reflexivity. rewrite E.
  assert (semicolon_copy_max <= COMMENT_BUFFER) by (vm_compute; discriminate).
  assert (save_copy_max <= COMMENT_BUFFER) by (vm_compute; discriminate).
  split; lia.
Qed.
