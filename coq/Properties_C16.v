(* C16 -- working-session files round-trip populations with per-instance state.
   The state letters, EntityWfState, the letter switch of WriteWorkingData and the
   reader's letter test are REGENERATED from the sources on every run
   (coq/gen/WsLetters.v).  Sessions are arbitrary lists of nodes with arbitrary
   (also partially filled) values; every node has an editing state.

   Reading of "saving again reproduces the file byte-for-byte": deleted instances
   are written with a D prefix and skipped on load, so the file saved from the
   restored session (second generation) no longer contains them nor the references
   to them; from the second generation on the file is a fixed point
   (c16_third_generation).  For a session without deleted instances the first save
   already is that fixed point (surviving s = s up to references to nothing). *)
From Coq Require Import List ZArith NArith Bool.
From SC Require Import P21Lex P21Syntax Append WorkSessionDefs WorkSession WorkSession_Proofs.
From SC.gen Require Import WsLetters.
Import ListNotations.
Local Open Scope Z_scope.

(* every state is written with a letter the reader accepts and maps back to the
   same state; distinct states have distinct letters; no letter is 'E' *)
Theorem c16_letters_bijective : forall s, s <> WNoState ->
  exists c, ws_letter s = Some c /\ ws_state c = s /\ In c ws_accepted /\ c <> 69%N.
Proof.
  intros s Hs. destruct (letter_defined s Hs) as [c Hc]. exists c.
  destruct (letter_roundtrip s c Hc) as [H1 H2]. pose proof (no_letter_E s c Hc). auto.
Qed.
Print Assumptions c16_letters_bijective.

Theorem c16_letters_injective : forall s1 s2 c, ws_letter s1 = Some c -> ws_letter s2 = Some c -> s1 = s2.
Proof. exact letters_injective. Qed.
Print Assumptions c16_letters_injective.

(* loading what was saved restores exactly the instances not marked deleted, each
   with its editing state and its values (references to deleted instances unset; inside an aggregate of aggregates, whose
   elements the reader keeps as text, the name stays) *)
Theorem c16_load_save : forall s, Forall (fun n => has_state n = true) s -> load (save s) = surviving s.
Proof. exact load_save. Qed.
Print Assumptions c16_load_save.

Theorem c16_second_generation_fixed_point : forall s, surviving (surviving s) = surviving s.
Proof. exact surviving_idem. Qed.
Print Assumptions c16_second_generation_fixed_point.

Theorem c16_third_generation : forall s, Forall (fun n => has_state n = true) s ->
  save (load (save (load (save s)))) = save (load (save s)).
Proof. exact third_generation. Qed.
Print Assumptions c16_third_generation.

Example c16_example :
  let i := fun id ps => {| p_id := id; p_body := [([80%N], ps)] |} in
  let s := [ {| w_state := WIncomplete; w_inst := i 1 [PNull] |};
             {| w_state := WDelete; w_inst := i 2 [PInt 5] |};
             {| w_state := WNew; w_inst := i 3 [PList [PRef 1; PRef 2]] |} ] in
  map fst (save s) = [73%N; 68%N; 78%N] /\
  map w_state (load (save s)) = [WIncomplete; WNew] /\
  map (fun n => p_body (w_inst n)) (load (save s)) = [[([80%N], [PNull])]; [([80%N], [PList [PRef 1; PNull]])]].
Proof. vm_compute. repeat split. Qed.
