(* Severity bookkeeping of the two-pass exchange-file reader (C03, C15, C16):
   STEPfile::ReadData1 / ReadData2 / ReadInstance / AppendEntityErrorMsg /
   AppendFile (src/cleditor/STEPfile.cc) and p21read's exit status
   (src/test/p21read/p21read.cc), as a fold over per-instance outcomes.
   No proofs here (extracted for the correspondence check). *)
From Coq Require Import List ZArith Bool NArith.
From SC.gen Require Import SevTable.
Import ListNotations.
Local Open Scope Z_scope.

Inductive outcome :=
| NotCreated          (* pass 1 created nothing (unknown/abstract keyword, illegal complex, duplicate id,
                         missing '='): pass 2 finds no instance or a duplicate and returns ENTITY_NULL *)
| Simple (sev : Z)    (* simple record; severity returned by SDAI_Application_instance::STEPread *)
| Complex (sev : Z).  (* external-mapping record *)

Record fstate := { fsev : Z; errcount : Z; ents_invalid : Z; valid : Z }.

(* STEPfile::AppendEntityErrorMsg *)
Definition append_entity_error (st : fstate) (sev : Z) : fstate :=
  if Z.eqb sev SEVERITY_NULL then st
  else {| fsev := greater (fsev st) (if sev <? SEVERITY_WARNING then SEVERITY_WARNING else sev);
          errcount := if sev <? SEVERITY_USERMSG then errcount st + 1 else errcount st;
          ents_invalid := ents_invalid st; valid := valid st |}.

(* counters of ReadData2 on obj->Error().severity() *)
Definition count_obj (st : fstate) (sev : Z) : fstate :=
  if sev <? SEVERITY_INCOMPLETE then
    {| fsev := fsev st; errcount := errcount st + 1; ents_invalid := ents_invalid st + 1; valid := valid st |}
  else if Z.eqb sev SEVERITY_INCOMPLETE then
    {| fsev := fsev st; errcount := errcount st; ents_invalid := ents_invalid st + 1; valid := valid st |}
  else if Z.eqb sev SEVERITY_USERMSG then st
  else {| fsev := fsev st; errcount := errcount st; ents_invalid := ents_invalid st; valid := valid st + 1 |}.

(* COMPLEX_APPENDS: does the external-mapping branch of ReadInstance call
   AppendEntityErrorMsg (which also clears the instance's error)?  *)
Definition pass2_step (complex_appends : bool) (st : fstate) (o : outcome) : fstate :=
  match o with
  | NotCreated =>
      {| fsev := fsev st; errcount := errcount st + 1; ents_invalid := ents_invalid st + 1; valid := valid st |}
  | Simple sev => count_obj (append_entity_error st sev) SEVERITY_NULL
  | Complex sev =>
      if complex_appends then count_obj (append_entity_error st sev) SEVERITY_NULL
      else count_obj st sev
  end.

Definition created (o : outcome) : bool := match o with NotCreated => false | _ => true end.

(* AppendFile after a readable header: pass 1, pass 2, end checks.
   sev0 = severity accumulated before the data section (header). *)
Definition append_file (complex_appends : bool) (sev0 : Z) (os : list outcome) (end_ok : bool) : Z * Z :=
  let total := Z.of_nat (length (filter created os)) in
  let not_created := Z.of_nat (length os) - total in
  let s1 := if 0 <? not_created then greater sev0 SEVERITY_WARNING else sev0 in
  let st := fold_left (pass2_step complex_appends) os {| fsev := s1; errcount := 0; ents_invalid := 0; valid := 0 |} in
  let s2 := if 0 <? ents_invalid st then greater (fsev st) SEVERITY_WARNING else fsev st in
  if negb (Z.eqb total (valid st)) then (greater s2 SEVERITY_WARNING, greater s2 SEVERITY_WARNING)
  else if negb end_ok then (greater s2 SEVERITY_WARNING, greater s2 SEVERITY_WARNING)
  else (SEVERITY_NULL, s2).       (* (return value, STEPfile::Error().severity()) *)

(* p21read: exit(1) when Error().severity() <= SEVERITY_INCOMPLETE *)
Definition p21read_exit (file_sev : Z) : Z := if file_sev <=? SEVERITY_INCOMPLETE then 1 else 0.

(* instance level: SDAI_Application_instance::STEPread folds the attribute
   severities that are <= USERMSG into the instance severity *)
Definition inst_sev (attr_sevs : list Z) : Z :=
  fold_left (fun acc s => if s <=? SEVERITY_USERMSG then greater acc s else acc) attr_sevs SEVERITY_NULL.

(* ---- attribute level: null pre-check of STEPattribute::STEPread (C15) ---- *)
Inductive akind := KInteger | KReal | KNumber | KString | KBinary | KBoolean | KLogical | KEnum
                 | KEntity | KAggregate | KSelect.

(* value substituted in lenient mode: None = nothing substituted *)
Inductive filler := FNone | FInt0 | FReal0 | FEmptyStr.

(* ---- externally mapped instances: STEPcomplex::STEPread merges what reading its parts reported ----
   a part = (severity its SDAI_Application_instance::STEPread returned,
             per attribute: (severity of the attribute's error, the attribute is derived by another part)) *)
Definition part := (Z * list (Z * bool))%type.

(* OnlyDerivedValuesGiven(): every attribute with an error worse than a user message is a derived one, and there is one *)
Definition only_derived_values_given (attrs : list (Z * bool)) : bool :=
  forallb (fun a => negb (fst a <? SEVERITY_USERMSG) || snd a) attrs
  && existsb (fun a => fst a <? SEVERITY_USERMSG) attrs.

(* does the severity of this part reach the instance? *)
Definition part_counts (p : part) : bool :=
  (fst p <? SEVERITY_NULL) && negb ((fst p =? SEVERITY_WARNING) && only_derived_values_given (snd p)).

(* the severity STEPcomplex::STEPread returns: own = what the record syntax itself gave *)
(* the parts in the order they stand in the record, each under the number of its entity: a part that is met a second
   time adds a WARNING to what the parts reported (its values replace those read before) *)
Fixpoint has_dup (l : list N) : bool :=
  match l with
  | [] => false
  | x :: r => existsb (N.eqb x) r || has_dup r
  end.

Definition complex_sev_named (own : Z) (named : list (N * part)) : Z :=
  let pe0 := fold_left (fun acc p => if part_counts p then greater acc (fst p) else acc) (map snd named) SEVERITY_NULL in
  let pe := if has_dup (map fst named) then greater pe0 SEVERITY_WARNING else pe0 in
  if pe <? SEVERITY_NULL then greater own pe else own.

Definition complex_sev (own : Z) (parts : list part) : Z :=
  let pe := fold_left (fun acc p => if part_counts p then greater acc (fst p) else acc) parts SEVERITY_NULL in
  if pe <? SEVERITY_NULL then greater own pe else own.
