(* C08: which sets of entity names form a legal complex instance.
   Generator side (src/exp2cxx/expressbuild.cc): how the AND/OR/ANDOR tree of a supertype is
   built from its SUPERTYPE OF expression, its implicit subtypes and its subtypes' own trees.
   Runtime side (src/clstepcore/collect.cc, complexlist.cc, match-ors.cc, non-ors.cc,
   trynext.cc): the matcher is modelled by what it computes -- the family of name sets a tree
   generates -- not by its backtracking mechanics; the correspondence check compares the two
   on every subset of every generated hierarchy.  No proofs here. *)
From Coq Require Import List NArith Bool.
Import ListNotations.
Local Open Scope N_scope.

Inductive sx : Set := XLeaf (n : N) | XOneOf (l : list sx) | XAnd (l : list sx) | XAndOr (l : list sx).
Inductive tree : Set := TLeaf (n : N) | TAnd (l : list tree) | TOr (l : list tree) | TAndOr (l : list tree).

Record cent := { c_id : N; c_supers : list N; c_abstract : bool; c_expr : option sx }.
Definition graph := list cent.

Definition memb (x : N) (l : list N) : bool := existsb (N.eqb x) l.

Fixpoint find (G : graph) (i : N) : option cent :=
  match G with [] => None | e :: r => if c_id e =? i then Some e else find r i end.
Definition subs (G : graph) (i : N) : list N :=
  map c_id (filter (fun e => memb i (c_supers e)) G).
Definition abstract (G : graph) (i : N) : bool :=
  match find G i with Some e => c_abstract e | None => false end.
Definition supers (G : graph) (i : N) : list N :=
  match find G i with Some e => c_supers e | None => [] end.

Fixpoint leaves (x : sx) : list N :=
  match x with
  | XLeaf n => [n]
  | XOneOf l | XAnd l | XAndOr l => (fix go (l : list sx) := match l with [] => [] | c :: r => leaves c ++ go r end) l
  end.

(* ---- expressbuild.cc ---- *)
Section Build.
Variable G : graph.
Variable sub_tree : N -> tree.      (* ComplexList of a subtype that is itself a supertype *)

(* MultList::addSimpleAndSubs() *)
Definition node (s : N) : tree :=
  match subs G s with
  | [] => TLeaf s
  | _ => if abstract G s then sub_tree s else TOr [TLeaf s; sub_tree s]
  end.

(* MultList::processSubExp() *)
Fixpoint conv (x : sx) : tree :=
  match x with
  | XLeaf s => node s
  | XOneOf l => TOr (map conv l)
  | XAnd l => TAnd (map conv l)
  | XAndOr l => TAndOr (map conv l)
  end.
End Build.

(* ComplexList::ComplexList(Entity, ...) + addImplicitSubs() *)
Fixpoint build (fuel : nat) (G : graph) (e : N) : tree :=
  match fuel with
  | O => TLeaf e
  | S f =>
    let xt := match find G e with
              | Some c => match c_expr c with Some x => [conv G (build f G) x] | None => [] end
              | None => [] end in
    let mentioned := match find G e with
                     | Some c => match c_expr c with Some x => leaves x | None => [] end
                     | None => [] end in
    let imps := filter (fun s => negb (memb s mentioned)) (subs G e) in
    match imps with
    | [] => TAnd (TLeaf e :: xt)
    | _ => TAnd [TLeaf e; TAndOr (xt ++ map (node G (build f G)) imps)]
    end
  end.

(* ---- what a tree accepts ---- *)
Definition cross (A B : list (list N)) : list (list N) :=
  flat_map (fun a => map (fun b => a ++ b) B) A.

Fixpoint sets (t : tree) : list (list N) :=
  match t with
  | TLeaf n => [[n]]
  | TAnd l => (fix go (l : list tree) := match l with [] => [[]] | c :: r => cross (sets c) (go r) end) l
  | TOr l => (fix go (l : list tree) := match l with [] => [] | c :: r => sets c ++ go r end) l
  | TAndOr l =>
    filter (fun s => match s with [] => false | _ => true end)
      ((fix go (l : list tree) := match l with [] => [[]] | c :: r => let rest := go r in rest ++ cross (sets c) rest end) l)
  end.

Definition subset (a b : list N) : bool := forallb (fun x => memb x b) a.
Definition set_eqb (a b : list N) : bool := subset a b && subset b a.

Fixpoint names (t : tree) : list N :=
  match t with
  | TLeaf n => [n]
  | TAnd l | TOr l | TAndOr l => (fix go (l : list tree) := match l with [] => [] | c :: r => names c ++ go r end) l
  end.

(* ComplexList::matches() on one list *)
Definition matches (t : tree) (S : list N) : bool := existsb (set_eqb S) (sets t).

(* ---- ComplexCollect::supports() ---- *)
Definition ids (G : graph) : list N := map c_id G.
Definition roots (G : graph) : list N :=
  map c_id (filter (fun e => match c_supers e with [] => negb (match subs G (c_id e) with [] => true | _ => false end) | _ => false end) G).
Definition fuel_of (G : graph) : nat := S (length G).
Definition root_tree (G : graph) (r : N) : tree := build (fuel_of G) G r.

(* combination of the lists of all roots that contain a member with several supertypes;
   hitMultNodes(): such a member must be matched inside every one of them that knows it *)
Fixpoint combos (parts : list (list (list N))) : list (list (list N)) :=
  match parts with
  | [] => [[]]
  | p :: r => flat_map (fun s => map (fun rest => s :: rest) (combos r)) p
  end.

Definition supports (G : graph) (S : list N) : bool :=
  let mult := filter (fun s => 1 <? N.of_nat (length (supers G s))) S in
  match mult with
  | [] => existsb (fun r => matches (root_tree G r) S) (roots G)
  | _ =>
    let involved := filter (fun r => existsb (fun m => memb m (names (root_tree G r))) mult) (roots G) in
    let trees := map (root_tree G) involved in
    existsb (fun choice =>
               set_eqb S (concat choice) &&
               forallb (fun m => forallb (fun ts => negb (memb m (names (fst ts))) || memb m (snd ts))
                                         (combine trees choice)) mult)
            (combos (map sets trees))
  end.

(* ---- STEPcomplex::Initialize(): a single part is accepted when the entity stands on its own (it is not abstract
   and has no supertype); the supertype lists are asked about two and more parts ---- *)
Definition accepted (G : graph) (S : list N) : bool :=
  match S with
  | [e] => match supers G e with [] => negb (abstract G e) | _ => false end
  | _ => supports G S
  end.

(* ---- the declarative rule (the property's three clauses) ---- *)
Fixpoint dsets (x : sx) : list (list N) :=
  match x with
  | XLeaf n => [[n]]
  | XAnd l => (fix go (l : list sx) := match l with [] => [[]] | c :: r => cross (dsets c) (go r) end) l
  | XOneOf l => (fix go (l : list sx) := match l with [] => [] | c :: r => dsets c ++ go r end) l
  | XAndOr l =>
    filter (fun s => match s with [] => false | _ => true end)
      ((fix go (l : list sx) := match l with [] => [[]] | c :: r => let rest := go r in rest ++ cross (dsets c) rest end) l)
  end.

Definition constraint (G : graph) (e : N) : sx :=
  let x := match find G e with Some c => c_expr c | None => None end in
  let mentioned := match x with Some x => leaves x | None => [] end in
  let imps := filter (fun s => negb (memb s mentioned)) (subs G e) in
  match x, imps with
  | Some x, [] => x
  | Some x, _ => XAndOr (x :: map XLeaf imps)
  | None, _ => XAndOr (map XLeaf imps)
  end.

Definition legal (G : graph) (S : list N) : bool :=
  forallb (fun e => subset (supers G e) S) S &&
  forallb (fun e =>
             let D := filter (fun s => memb s S) (subs G e) in
             match D with
             | [] => negb (abstract G e)
             | _ => existsb (set_eqb D) (dsets (constraint G e))
             end) S.
