(* Runs coq/Hash.v and coq/GenBound.v (extracted).
   O name1 name2 ...      -> the names in DICTdo order (dict_order)
   B <type> <value> <text> <world> -> what print_bound writes: N <z> | T <text>
       type = I(nteger literal) F(uncall) D(identifier) X(expression) O(ther) *)
open Conv
open Hash
open GenBound
open BoundRule

let () =
  try
    while true do
      let line = input_line stdin in
      match split_ws line with
      | "O" :: names ->
        let ks = Stdlib.List.map bytes_of_string names in
        print_string (String.concat " " (Stdlib.List.map string_of_bytes (dict_order ks)) ^ "\n")
      | ["B"; t; v; text; w] ->
        let ty = match t with "I" -> Type_Integer | "F" -> Type_Funcall | "D" -> Type_Identifier
                            | "X" | "M" -> Type_Expression | _ -> Type_Other in
        (* type M: the negation of the integer literal -v (v is given with its sign) *)
        let e = { etype = ty; etext = bytes_of_string text; evalue = z_of_string v;
                  eneg = (if t = "M" then Some (BinInt.Z.opp (z_of_string v)) else None) } in
        (match print_bound (fun _ -> z_of_string w) e with
         | PNumber z -> print_string ("N " ^ string_of_z z ^ "\n")
         | PText s -> print_string ("T " ^ string_of_bytes s ^ "\n"))
      | _ -> print_string "?\n"
    done
  with End_of_file -> ()
