(* Runs coq/P21Lex.v (extracted) on the requests of harness/h_lex.cc *)
open Conv
open P21Lex
open P21Enum

let unhex (h : string) : string =
  let n = String.length h / 2 in
  String.init n (fun i -> Char.chr (int_of_string ("0x" ^ String.sub h (2 * i) 2)))

let delims = Some [n_of_int 44; n_of_int 41]
let b2i b = if b then 1 else 0

let tok_text (t : ftok) : string =
  let ds l = let s = string_of_bytes l in if s = "" then "0" else s in
  (if t.f_neg then "-" else "") ^ ds t.f_int ^ "." ^ ds t.f_frac ^
  (if t.f_has_exp then "e" ^ (if t.f_eneg then "-" else "") ^ ds t.f_exp else "")

let () =
  try
    while true do
      let line = input_line stdin in
      if String.length line >= 2 then begin
        let k = line.[0] in
        let data = unhex (String.sub line 2 (String.length line - 2)) in
        let s0 = of_bytes (bytes_of_string data) in
        let nul = Conv.z_of_int 3 in
        match k with
        | 'I' ->
          let ((v, sev), s) = read_integer s0 nul delims in
          Printf.printf "I %d %s %d %d %d %d\n" (match v with Some _ -> 1 | None -> 0)
            (match v with Some z -> string_of_z z | None -> "-") (int_of_z sev)
            (Stdlib.List.length s.rest) (b2i s.eofb) (b2i s.failb)
        | 'R' | 'N' ->
          let ((v, sev), s) = if k = 'R' then read_real s0 nul delims else read_number s0 nul delims in
          Printf.printf "%c %d %s %d %d %d %d %d\n" k (match v with Some _ -> 1 | None -> 0)
            (match v with Some t -> tok_text t | None -> "-") (int_of_z sev)
            (Stdlib.List.length s.rest) (b2i s.eofb) (b2i s.failb)
            (if k = 'R' then int_of_z (read_real_buf_index s0) else 0)
        | 'T' ->
          let ((lit, sev), rest) = P21Str.string_read (bytes_of_string data) in
          let hx = String.concat "" (Stdlib.List.map (fun b -> Printf.sprintf "%02x" (int_of_n b)) lit) in
          Printf.printf "T %d %s %d %d\n" (if hx = "" then 0 else 1) (if hx = "" then "-" else hx) (int_of_z sev) (Stdlib.List.length rest)
        | 'K' ->
          (match P21Skip.skip_inst (bytes_of_string data) with
           | Some rest -> Printf.printf "K 1 - 3 %d\n" (Stdlib.List.length rest)
           | None -> Printf.printf "K 0 - E\n")
        | 'P' ->
          Printf.printf "P 1 - 3 %d\n" (Stdlib.List.length (P21Skip.token_separator (bytes_of_string data)))
        | 'Y' ->
          let ((v, sev), s) = P21Bin.read_binary s0 nul true in
          Printf.printf "Y %d %s %d %d %d %d\n" (match v with Some _ -> 1 | None -> 0)
            (match v with Some l -> string_of_bytes l | None -> "-") (int_of_z sev)
            (Stdlib.List.length s.rest) (b2i s.eofb) (b2i s.failb)
        | 'W' ->
          (* data = "<rbuf>" : the %.15G text produced by the harness *)
          Printf.printf "W %s\n" (string_of_bytes (write_real_text (bytes_of_string data)))
        | 'L' | 'B' | 'E' ->
          let table = (match k with
              | 'L' -> coq_LOGICAL_TABLE
              | 'B' -> coq_BOOLEAN_TABLE
              | _ -> [bytes_of_string "AHEAD"; bytes_of_string "BEHIND"; bytes_of_string "A1"]) in
          let nsearch = Conv.nat_of_int (match k with 'L' -> 4 | 'B' -> 2 | _ -> 3) in
          let r = read_enum table nsearch (if k = 'L' then Some (Conv.z_of_int 2) else None) true s0 in
          let s = r.e_stream in
          let (a, v) = (match r.e_val with
              | Some i -> (1, string_of_z i)
              | _ -> (0, "-")) in
          Printf.printf "%c %d %s %d %d %d %d\n" k a v (int_of_z r.e_sev)
            (Stdlib.List.length s.rest) (b2i s.eofb) (b2i s.failb)
        | _ -> ()
      end
    done
  with End_of_file -> ()
