(* Runs coq/Complex.v (extracted).
   G <entity> <entity> ...       defines the graph; entity = id:sup,sup:A|N:expr
        expr = - | prefix form:  L<id> | O(<e>;<e>;...) | A(...) | R(...)   (ONEOF / AND / ANDOR)
   Q id id ...                   -> accepted legal   (1/0 each) for that set
   T id                          -> the tree built for a root (debug) *)
open Conv
open Complex

let parse_expr (s : string) : sx =
  let pos = ref 0 in
  let n = String.length s in
  let rec expr () =
    let c = s.[!pos] in
    incr pos;
    if c = 'L' then begin
      let st = !pos in
      while !pos < n && s.[!pos] >= '0' && s.[!pos] <= '9' do incr pos done;
      XLeaf (n_of_int (int_of_string (String.sub s st (!pos - st))))
    end else begin
      (* c in O A R, then '(' items separated by ';' then ')' *)
      incr pos;
      let items = ref [] in
      let fin = ref false in
      while not !fin do
        items := expr () :: !items;
        if s.[!pos] = ';' then incr pos else begin incr pos; fin := true end
      done;
      let l = Stdlib.List.rev !items in
      match c with 'O' -> XOneOf l | 'A' -> XAnd l | _ -> XAndOr l
    end in
  expr ()

let rec show (t : tree) : string =
  match t with
  | TLeaf n -> string_of_int (int_of_n n)
  | TAnd l -> "AND[" ^ String.concat " " (Stdlib.List.map show l) ^ "]"
  | TOr l -> "OR[" ^ String.concat " " (Stdlib.List.map show l) ^ "]"
  | TAndOr l -> "ANDOR[" ^ String.concat " " (Stdlib.List.map show l) ^ "]"

let () =
  let g = ref [] in
  try
    while true do
      let line = input_line stdin in
      match split_ws line with
      | "G" :: ents ->
        g := Stdlib.List.map (fun tok ->
            match String.split_on_char ':' tok with
            | [i; sups; ab; ex] ->
              { c_id = n_of_int (int_of_string i);
                c_supers = (if sups = "" then [] else Stdlib.List.map (fun x -> n_of_int (int_of_string x)) (String.split_on_char ',' sups));
                c_abstract = (ab = "A");
                c_expr = (if ex = "-" then None else Some (parse_expr ex)) }
            | _ -> failwith ("bad entity " ^ tok)) ents;
        print_string "ok\n"
      | "Q" :: ids ->
        let s = Stdlib.List.map (fun x -> n_of_int (int_of_string x)) ids in
        print_string ((if accepted !g s then "1" else "0") ^ " " ^ (if legal !g s then "1" else "0") ^ "\n")
      | ["T"; r] -> print_string (show (root_tree !g (n_of_int (int_of_string r))) ^ "\n")
      | _ -> print_string "?\n"
    done
  with End_of_file -> ()
