(* Runs coq/InstMgr.v (extracted) on the op sequences of harness/h_instmgr.cc and
   prints the same dump lines. *)
open Conv
open InstMgr

let st_of_int = function 0 -> Complete | 1 -> Incomplete | 2 -> Delete_ | 3 -> New_ | _ -> NoState
let int_of_st = function Complete -> 0 | Incomplete -> 1 | Delete_ -> 2 | New_ -> 3 | NoState -> 4

let opt_h = function None -> -1 | Some h -> int_of_nat h

let dump (s : mgr) (tag : string) (maxq : int) =
  let b = Buffer.create 256 in
  let n = int_of_z (q_count s) in
  Buffer.add_string b (Printf.sprintf "%s n=%d max=%d [" tag n (int_of_z s.maxid));
  for i = 0 to n - 1 do
    let ni = nat_of_int i in
    let h = opt_h (q_inst_at s ni) in
    let hn = nat_of_int h in
    let live = h >= 0 && inst_alive s hn in
    let h' = if h >= 0 && not live then -2 else h in
    Buffer.add_string b (Printf.sprintf "%s%d:%d:%d:%d" (if i > 0 then " " else "") h'
      (if live then int_of_z (inst_id s hn) else -9)
      (match q_state_at s ni with Some x -> int_of_st x | None -> 4)
      (match q_index_at s ni with Some z -> int_of_z z | None -> -1))
  done;
  Buffer.add_string b "] find";
  for id = -1 to maxq do
    let r = q_find s (z_of_int id) in
    let h = opt_h r in
    let h' = if h >= 0 && not (inst_alive s (nat_of_int h)) then -2 else h in
    Buffer.add_string b (Printf.sprintf " %d" h')
  done;
  Buffer.add_string b " kw";
  for k = 0 to 2 do
    Buffer.add_string b (Printf.sprintf " %d" (int_of_z (q_kwcount s (n_of_int k))))
  done;
  Buffer.add_string b " byname";
  for k = 0 to 2 do
    for st = 0 to n do
      Buffer.add_string b (Printf.sprintf " %d" (opt_h (q_by_name s (n_of_int k) (nat_of_int st))))
    done
  done;
  Buffer.add_string b " ids";
  Stdlib.List.iter (fun i ->
      Buffer.add_string b (Printf.sprintf " %d" (if i.i_alive then int_of_z i.i_id else -9)))
    s.insts;
  print_endline (Buffer.contents b)

let parse_op (tok : string) : op option =
  let c = tok.[0] in
  let rest = String.sub tok 1 (String.length tok - 1) in
  let a, b =
    match String.index_opt rest ':' with
    | Some k -> (int_of_string (String.sub rest 0 k),
                 int_of_string (String.sub rest (k + 1) (String.length rest - k - 1)))
    | None -> ((if rest = "" then 0 else int_of_string rest), 0) in
  match c with
  | 'c' -> Some (OCreate (z_of_int a, n_of_int b))
  | 'a' -> Some (OAppend (nat_of_int a, st_of_int b))
  | 'x' -> Some (ODeleteIdx (nat_of_int a))
  | 'y' -> Some (ODeleteInst (nat_of_int a))
  | 's' -> Some (OChangeState (nat_of_int a, st_of_int b))
  | 'C' -> Some OClear
  | 'D' -> Some ODeleteAll
  | 'n' -> Some ONextId
  | _ -> None

let () =
  let maxq = if Array.length Sys.argv > 1 then int_of_string Sys.argv.(1) else 12 in
  let seq = ref 0 in
  (try
     while true do
       let line = input_line stdin in
       let toks = split_ws line in
       Printf.printf "SEQ %d\n" !seq;
       let s = ref init in
       (match toks with
        | owns :: ops ->
          Stdlib.List.iter (fun tok ->
              match parse_op tok with
              | None -> dump !s "-" maxq
              | Some o ->
                (match step !s o with
                 | Ok s' -> s := s'; dump !s "+" maxq
                 | Skip -> dump !s "-" maxq
                 | Crash -> print_endline "CRASH null-node"; dump !s "-" maxq)) ops
        | [] -> ());
       let owns = (match toks with o :: _ -> o <> "0" | [] -> false) in
       print_endline ("Z" ^ String.concat "" (Stdlib.List.map (fun b -> if b then " 1" else " 0") (final_alive owns !s)));
       Printf.printf "END %d\n" !seq;
       incr seq
     done
   with End_of_file -> ())
