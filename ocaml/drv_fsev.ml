(* Runs coq/FileSev.v + gen/NullTable.v (extracted):
   T <strict 0/1> <nullable 0/1> <kind>      -> severity filler
   F <sev0> <end_ok 0/1> o1 o2 ...   (o = N | S<sev> | C<sev>)  -> ret sev exit
   I s1 s2 ...                          -> instance severity
   X own p1 p2 ...                      -> complex_sev (STEPcomplex::STEPread) *)
open Conv
open FileSev
open NullTable

let kind_of = function
  | "KInteger" -> Some KInteger | "KReal" -> Some KReal | "KNumber" -> Some KNumber | "KString" -> Some KString
  | "KBinary" -> Some KBinary | "KBoolean" -> Some KBoolean | "KLogical" -> Some KLogical | "KEnum" -> Some KEnum
  | "KEntity" -> Some KEntity | "KAggregate" -> Some KAggregate | "KSelect" -> Some KSelect | _ -> None
let filler_name = function FNone -> "FNone" | FInt0 -> "FInt0" | FReal0 -> "FReal0" | FEmptyStr -> "FEmptyStr"

let () =
  try
    while true do
      let line = input_line stdin in
      match split_ws line with
      | "T" :: st :: nu :: k :: _ ->
        (match kind_of k with
         | Some kk ->
           let (sev, f) = null_precheck (st = "1") (nu = "1") kk in
           Printf.printf "T %d %s\n" (int_of_z sev) (filler_name f)
         | None -> print_endline "T ? ?")
      | "F" :: sev0 :: eok :: os ->
        let parse o = match o.[0] with
          | 'N' -> NotCreated
          | 'S' -> Simple (z_of_int (int_of_string (String.sub o 1 (String.length o - 1))))
          | _ -> Complex (z_of_int (int_of_string (String.sub o 1 (String.length o - 1)))) in
        let (ret, sev) = append_file coq_COMPLEX_APPENDS (z_of_int (int_of_string sev0)) (Stdlib.List.map parse os) (eok = "1") in
        let ex = if BinInt.Z.leb sev coq_P21READ_FAIL_AT then 1 else 0 in
        Printf.printf "F %d %d %d\n" (int_of_z ret) (int_of_z sev) ex
      | "X" :: own :: ps ->
        (* X <own severity> <sev>:<attr sev><d|e>,... ...   -> severity of the complex instance, and which parts count *)
        let parse_part w =
          (match String.split_on_char ':' w with
           | sv :: rest ->
             let al = (match rest with a :: _ when a <> "" -> String.split_on_char ',' a | _ -> []) in
             (z_of_int (int_of_string sv),
              Stdlib.List.map (fun a -> let n = String.length a in
                                (z_of_int (int_of_string (String.sub a 0 (n - 1))), a.[n - 1] = 'd')) al)
           | [] -> (z_of_int 3, [])) in
        let parts = Stdlib.List.map parse_part ps in
        Printf.printf "X %d %s\n" (int_of_z (complex_sev (z_of_int (int_of_string own)) parts))
          (String.concat "" (Stdlib.List.map (fun p -> if part_counts p then "1" else "0") parts))
      | "XN" :: own :: ps ->
        (* XN <own severity> <entity number>=<sev>:<attr sev><d|e>,... ...   -> complex_sev_named (a part met twice adds a WARNING) *)
        let parse_named w =
          (match String.index_opt w '=' with
           | Some k ->
             let nm = Conv.n_of_int (int_of_string (String.sub w 0 k)) in
             let rest = String.sub w (k + 1) (String.length w - k - 1) in
             (match String.split_on_char ':' rest with
              | sv :: r ->
                let al = (match r with a :: _ when a <> "" -> String.split_on_char ',' a | _ -> []) in
                (nm, (z_of_int (int_of_string sv),
                      Stdlib.List.map (fun a -> let n = String.length a in
                                        (z_of_int (int_of_string (String.sub a 0 (n - 1))), a.[n - 1] = 'd')) al))
              | [] -> (nm, (z_of_int 3, [])))
           | None -> failwith "bad part") in
        Printf.printf "XN %d\n" (int_of_z (complex_sev_named (z_of_int (int_of_string own)) (Stdlib.List.map parse_named ps)))
      | "R" :: flags :: k :: _ ->
        (* R <flags: one of 0|1 per attribute, 1 = redefining> <k>  -> severity of a record with k good parameters *)
        let attrs = Stdlib.List.init (String.length flags) (fun i -> flags.[i] = '1') in
        let nul = z_of_int 3 in
        let sevs = Stdlib.List.init (int_of_string k) (fun _ -> nul) in
        Printf.printf "R %d\n" (int_of_z (RecRead.record_sev (fun _ -> nul) attrs (RecRead.params sevs)))
      | "I" :: ss ->
        Printf.printf "I %d\n" (int_of_z (inst_sev (Stdlib.List.map (fun s -> z_of_int (int_of_string s)) ss)))
      | _ -> ()
    done
  with End_of_file -> ()
