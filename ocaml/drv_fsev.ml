(* Runs coq/FileSev.v + gen/NullTable.v (extracted):
   T <strict 0/1> <nullable 0/1> <kind>      -> severity filler
   F <sev0> <end_ok 0/1> o1 o2 ...   (o = N | S<sev> | C<sev>)  -> ret sev exit
   I s1 s2 ...                          -> instance severity *)
open Conv
open FileSev
open NullTable

let kind_of = function
  | "KInteger" -> Some KInteger | "KReal" -> Some KReal | "KNumber" -> Some KNumber | "KString" -> Some KString
  | "KBinary" -> Some KBinary | "KBoolean" -> Some KBoolean | "KLogical" -> Some KLogical | "KEnum" -> Some KEnum
  | "KEntity" -> Some KEntity | "KAggregate" -> Some KAggregate | "KSelect" -> Some KSelect | _ -> None
let filler_name = function FNone -> "FNone" | FInt0 -> "FInt0" | FReal0 -> "FReal0" | FEmptyStr -> "FEmptyStr"

let () =
  try
    while true do
      let line = input_line stdin in
      match split_ws line with
      | "T" :: st :: nu :: k :: _ ->
        (match kind_of k with
         | Some kk ->
           let (sev, f) = null_precheck (st = "1") (nu = "1") kk in
           Printf.printf "T %d %s\n" (int_of_z sev) (filler_name f)
         | None -> print_endline "T ? ?")
      | "F" :: sev0 :: eok :: os ->
        let parse o = match o.[0] with
          | 'N' -> NotCreated
          | 'S' -> Simple (z_of_int (int_of_string (String.sub o 1 (String.length o - 1))))
          | _ -> Complex (z_of_int (int_of_string (String.sub o 1 (String.length o - 1)))) in
        let (ret, sev) = append_file coq_COMPLEX_APPENDS (z_of_int (int_of_string sev0)) (Stdlib.List.map parse os) (eok = "1") in
        let ex = if BinInt.Z.leb sev coq_P21READ_FAIL_AT then 1 else 0 in
        Printf.printf "F %d %d %d\n" (int_of_z ret) (int_of_z sev) ex
      | "I" :: ss ->
        Printf.printf "I %d\n" (int_of_z (inst_sev (Stdlib.List.map (fun s -> z_of_int (int_of_string s)) ss)))
      | _ -> ()
    done
  with End_of_file -> ()
