(* Runs coq/Lazy.v (extracted).
   B id:r1,r2 id: ...            -> "FWD id r.." / "REV id r.." / "DEPS id d.." lines then END
   V x ent attr ; t:e t:e ... ; id:type:ent.attr=r1,r2/ent.attr=... ...   -> INV y1 y2 ...
   S <hex>   coq/P21Scan.v scan_section on the text after "DATA;"
   E e ; e:s1,s2 .. ; e:a1,a2 ..   coq/SuperIter.v init_iattrs -> ENT a1 a2 ... *)
open Conv
open Lazy

let zl s = if s = "" then [] else Stdlib.List.map z_of_string (String.split_on_char ',' s)
let show l = String.concat " " (Stdlib.List.map string_of_z l)

let () =
  try
    while true do
      let line = input_line stdin in
      match split_ws line with
      | "B" :: rest ->
        let insts = Stdlib.List.map (fun w ->
            match String.index_opt w ':' with
            | Some k -> (z_of_string (String.sub w 0 k), zl (String.sub w (k + 1) (String.length w - k - 1)))
            | None -> (z_of_string w, [])) rest in
        let (fwd, rev) = build insts in
        Stdlib.List.iter (fun (k, v) -> Printf.printf "FWD %s %s\n" (string_of_z k) (show v)) fwd;
        Stdlib.List.iter (fun (k, v) -> Printf.printf "REV %s %s\n" (string_of_z k) (show v)) rev;
        Stdlib.List.iter (fun (id, _) ->
            match deps fwd id with
            | Some c -> Printf.printf "DEPS %s %s\n" (string_of_z id) (show c)
            | None -> Printf.printf "DEPS %s OUT-OF-FUEL\n" (string_of_z id)) insts;
        print_endline "END"
      | "V" :: rest ->
        let s = String.concat " " rest in
        (match String.split_on_char ';' s with
         | [q; isas; pops] ->
           let (x, ent, attr) = (match split_ws q with [a; b; c] -> (z_of_string a, z_of_string b, z_of_string c) | _ -> failwith "bad query") in
           let pairs = Stdlib.List.map (fun w -> match String.split_on_char ':' w with [a; b] -> (z_of_string a, z_of_string b) | _ -> failwith "bad isa") (split_ws isas) in
           let isa t e = Stdlib.List.exists (fun (a, b) -> BinInt.Z.eqb a t && BinInt.Z.eqb b e) pairs in
           let pop = Stdlib.List.map (fun w ->
               match String.split_on_char ':' w with
               | [id; ty; attrs] ->
                 let al = if attrs = "" then [] else Stdlib.List.map (fun a ->
                     match String.split_on_char '=' a with
                     | [ea; rs] -> (match String.split_on_char '.' ea with
                         | [e; at] -> ((z_of_string e, z_of_string at), zl rs)
                         | _ -> failwith "bad attr")
                     | _ -> failwith "bad attr") (String.split_on_char '/' attrs) in
                 { r_id = z_of_string id; r_type = z_of_string ty; r_attrs = al }
               | _ -> failwith "bad inst") (split_ws pops) in
           let (_, rev) = build (Stdlib.List.map (fun i -> (i.r_id, all_refs i)) pop) in
           Printf.printf "INV %s\n" (show (resolve_inverse isa pop rev x ent attr))
         | _ -> print_endline "INV ?")
      | "S" :: hexl ->
        let hex = (match hexl with h :: _ -> h | [] -> "") in
        (* S <hex of the text after DATA;>  ->  "I id KW r1 r2.." per instance, then "END abort=0|1 endsec=0|1 stop=<bytes left>" *)
        let n = String.length hex / 2 in
        let data = String.init n (fun i -> Char.chr (int_of_string ("0x" ^ String.sub hex (2 * i) 2))) in
        let ((insts, ab), rest) = P21Scan.scan_section (bytes_of_string data) in
        let nstr v = string_of_z (match v with BinNums.N0 -> BinNums.Z0 | BinNums.Npos p -> BinNums.Zpos p) in
        Stdlib.List.iter (fun ((id, kw), refs) ->
            Printf.printf "I %s %s %s\n" (nstr id) (let k = string_of_bytes kw in if k = "" then "(complex)" else k)
              (String.concat " " (Stdlib.List.map nstr refs))) insts;
        Printf.printf "END abort=%d endsec=%d stop=%d\n" (if ab then 1 else 0) (if P21Scan.at_endsec rest then 1 else 0) (Stdlib.List.length rest)
      | "E" :: rest ->
        (* E <e> ; e:s1,s2 ... ; e:a1,a2 ...   coq/SuperIter.v init_iattrs: the inverse attributes entity e gets entries for *)
        let s = String.concat " " rest in
        (match String.split_on_char ';' s with
         | [q; sups; invs] ->
           let assoc part = Stdlib.List.map (fun w ->
               match String.split_on_char ':' w with
               | [a; b] -> (n_of_int (int_of_string a), if b = "" then [] else Stdlib.List.map (fun x -> n_of_int (int_of_string x)) (String.split_on_char ',' b))
               | _ -> failwith "bad pair") (split_ws part) in
           let g = { SuperIter.s_supers = assoc sups; SuperIter.s_invs = assoc invs } in
           let e = (match split_ws q with [a] -> n_of_int (int_of_string a) | _ -> failwith "bad query") in
           let nstr v = string_of_z (match v with BinNums.N0 -> BinNums.Z0 | BinNums.Npos p -> BinNums.Zpos p) in
           (match SuperIter.init_iattrs (nat_of_int 2000) g e with
            | Some l -> Printf.printf "ENT %s\n" (String.concat " " (Stdlib.List.map nstr l))
            | None -> print_endline "ENT OUT-OF-FUEL")
         | _ -> print_endline "ENT ?")
      | _ -> ()
    done
  with End_of_file -> ()
