(* shared: serialised parameter trees -> extracted P21Syntax.param (via the proved parse_param) *)
open Conv
open P21Syntax

let tok_of (s : string) : tok =
  match s.[0] with
  | '$' -> TDollar | '*' -> TStar | '(' -> TLp | ')' -> TRp | ',' -> TComma
  | 'i' -> TInt (z_of_string (String.sub s 1 (String.length s - 1)))
  | 'r' -> TReal [] | 's' -> TStr [] | 'b' -> TBin [] | 'e' -> TEnum []
  | '#' -> TRef (z_of_string (String.sub s 1 (String.length s - 1)))
  | 't' -> TKw (bytes_of_string (String.sub s 1 (String.length s - 1)))
  | _ -> failwith ("bad token " ^ s)

(* split a record's token list "( p , p , ... )" into parameters using parse_param *)
let rec params (ts : tok list) (acc : param list) : param list * tok list =
  match ts with
  | TRp :: r -> (Stdlib.List.rev acc, r)
  | TComma :: r -> params r acc
  | _ ->
    (match parse_param (nat_of_int 200) ts with
     | Some (p, r) -> params r (p :: acc)
     | None -> failwith "parameter does not parse")

let rec parts (ws : string list) (acc : (BinNums.coq_N list * param list) list) =
  match ws with
  | "}" :: r -> (Stdlib.List.rev acc, r)
  | kw :: "(" :: r ->
    (* collect tokens up to the matching close paren *)
    let rec grab ws depth acc =
      match ws with
      | [] -> failwith "unbalanced"
      | ")" :: r when depth = 0 -> (Stdlib.List.rev (")" :: acc), r)
      | "(" :: r -> grab r (depth + 1) ("(" :: acc)
      | ")" :: r -> grab r (depth - 1) (")" :: acc)
      | w :: r when String.length w > 1 && w.[0] = 't' -> grab r depth (w :: acc)
      | w :: r -> grab r depth (w :: acc) in
    let (inner, rest) = grab r 0 [] in
    let toks = Stdlib.List.map tok_of inner in
    let (ps, _) = params toks [] in
    parts rest ((bytes_of_string kw, ps) :: acc)
  | _ -> failwith "bad part"

