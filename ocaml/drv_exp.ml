(* Runs coq/ExpErr.v (extracted).
   M <opts> ; <parse events> ; <resolve events> ; <backend events>
       opts = w<class> / i<class> ... ; events = code:line ...
       -> status backend_ran occurred then the printed diagnostics  E|W code line ...
   EN <opts> ; code ...        -> enabled flags
   G e1:s1,s2 e2: ...         -> cyc_any and cyc_from for each entity
   CYCSEARCH n                 -> exhaustive search over all graphs with n nodes for a cyclic graph the check accepts *)
open Conv
open ExpErr

let parse_opts s = Stdlib.List.map (fun w -> (w.[0] = 'w', z_of_string (String.sub w 1 (String.length w - 1)))) (split_ws s)
let parse_evs s = Stdlib.List.map (fun w -> match String.split_on_char ':' w with
    | [c; l] -> (z_of_string c, z_of_string l) | _ -> failwith "bad event") (split_ws s)

let rec perms_subsets (l : int list) : int list list =
  (* all ordered lists of distinct elements of l *)
  let rec ins x = function [] -> [[x]] | y :: r as l -> (x :: l) :: Stdlib.List.map (fun t -> y :: t) (ins x r) in
  let rec subsets = function [] -> [[]] | x :: r -> let s = subsets r in s @ Stdlib.List.map (fun t -> x :: t) s in
  let rec perms = function [] -> [[]] | x :: r -> Stdlib.List.concat_map (ins x) (perms r) in
  Stdlib.List.concat_map perms (subsets l)

let has_cycle (g : (int * int list) list) : bool =
  let n = Stdlib.List.length g in
  let adj = Array.make n [] in
  Stdlib.List.iter (fun (k, v) -> adj.(k) <- v) g;
  let color = Array.make n 0 in
  let rec dfs u =
    color.(u) <- 1;
    let r = Stdlib.List.exists (fun v -> color.(v) = 1 || (color.(v) = 0 && dfs v)) adj.(u) in
    color.(u) <- 2; r in
  let res = ref false in
  for u = 0 to n - 1 do if color.(u) = 0 && dfs u then res := true done;
  !res

let () =
  try
    while true do
      let line = input_line stdin in
      match split_ws line with
      | "M" :: _ ->
        let body = String.sub line 2 (String.length line - 2) in
        (match String.split_on_char ';' body with
         | [o; p; r; b] ->
           let ov = process_options (parse_opts o) in
           let v = main ov (parse_evs p) (parse_evs r) (parse_evs b) in
           let ds = String.concat " " (Stdlib.List.map (fun d ->
               Printf.sprintf "%s:%s:%s" (if d.d_error then "E" else "W") (string_of_z d.d_code) (string_of_z d.d_line)) v.v_state.printed) in
           Printf.printf "M %s %d %d %s\n" (string_of_z v.v_status) (if v.v_backend_ran then 1 else 0)
             (if v.v_state.occurred then 1 else 0) ds
         | _ -> print_endline "M ?")
      | "EN" :: _ ->
        let body = String.sub line 3 (String.length line - 3) in
        (match String.split_on_char ';' body with
         | [o; cs] ->
           let ov = process_options (parse_opts o) in
           print_endline ("EN " ^ String.concat " " (Stdlib.List.map (fun c -> if enabled ov (z_of_string c) then "1" else "0") (split_ws cs)))
         | _ -> print_endline "EN ?")
      | "G" :: rest ->
        let g = Stdlib.List.map (fun w -> match String.split_on_char ':' w with
            | [e; ss] -> (z_of_string e, if ss = "" then [] else Stdlib.List.map z_of_string (String.split_on_char ',' ss))
            | _ -> failwith "bad graph") rest in
        Printf.printf "G %d %s\n" (if cyc_any g then 1 else 0)
          (String.concat " " (Stdlib.List.map (fun (e, _) -> if cyc_from g e then "1" else "0") g))
      | "CYCSEARCH" :: ns :: flags ->
        let n = int_of_string ns in
        let noself = Stdlib.List.mem "noself" flags in
        let nodes = Stdlib.List.init n (fun i -> i) in
        let choices = Array.of_list (perms_subsets nodes) in
        let m = Array.length choices in
        let idx = Array.make n 0 in
        let count = ref 0 and cyclic = ref 0 and missed = ref 0 in
        let first = ref None in
        let continue = ref true in
        while !continue do
          let g = Stdlib.List.init n (fun i -> (i, choices.(idx.(i)))) in
          incr count;
          if (not noself || Stdlib.List.for_all (fun (k, v) -> not (Stdlib.List.mem k v)) g) && has_cycle g then begin
            incr cyclic;
            let gz = Stdlib.List.map (fun (k, v) -> (z_of_int k, Stdlib.List.map z_of_int v)) g in
            if not (cyc_any gz) then begin
              incr missed;
              if !first = None then first := Some g
            end
          end;
          (* next *)
          let rec bump i = if i >= n then continue := false
            else if idx.(i) + 1 < m then idx.(i) <- idx.(i) + 1
            else begin idx.(i) <- 0; bump (i + 1) end in
          bump 0
        done;
        Printf.printf "CYCSEARCH n=%d graphs=%d cyclic=%d missed=%d" n !count !cyclic !missed;
        (match !first with
         | Some g -> Printf.printf " first=%s" (String.concat " " (Stdlib.List.map (fun (k, v) ->
             Printf.sprintf "%d:%s" k (String.concat "," (Stdlib.List.map string_of_int v))) g))
         | None -> ());
        print_newline ()
      | "B" :: ms ->
        (* coq/ErrBuf.v: the diagnostics of a run in the order they are raised, each fn:digits:len:line -> the order of the
           lines -B prints (every batch sorted by line), then for each diagnostic D | S<slot>[!] (! = cut short) *)
        let st = ref ErrBuf.init in
        let batch = ref [] and out = ref [] and marks = ref [] in
        let flush () = out := !out @ (Stdlib.List.sort compare (Stdlib.List.rev !batch)); batch := [] in
        Stdlib.List.iter (fun w ->
            match String.split_on_char ':' w with
            | [fn; dg; ln; line] ->
              let m = { ErrBuf.m_len = z_of_string ln; ErrBuf.m_fn = z_of_string fn; ErrBuf.m_digits = z_of_string dg } in
              let before = !st in
              let (s', what) = ErrBuf.report before m in
              (match what with
               | ErrBuf.Direct -> flush (); out := !out @ [int_of_string line]; marks := "D" :: !marks
               | ErrBuf.Stored (at, slot, cut) ->
                 if int_of_z at = 0 && int_of_z before.ErrBuf.used <> 0 then flush ();
                 batch := int_of_string line :: !batch;
                 marks := (Printf.sprintf "S%d%s" (int_of_z slot) (if cut then "!" else "")) :: !marks;
                 if int_of_z s'.ErrBuf.used = 0 then flush ());
              st := s'
            | _ -> failwith "bad message") ms;
        flush ();
        Printf.printf "B %s ; %s\n" (String.concat " " (Stdlib.List.map string_of_int !out)) (String.concat " " (Stdlib.List.rev !marks))
      | _ -> ()
    done
  with End_of_file -> ()
