(* Runs coq/P21Pass1.v (extracted): the first pass of the eager reader.
   P <hex of the text after DATA;> ; KW1 KW2 ... ; A+B+C D+E+F ...
     (keywords the registry can instantiate ; combinations of parts that are legal complex instances)
   -> one line per created instance "C id KW" or "X id name+name+..", then "END status" (Done | Bad | Unmodelled) *)
open Conv

let unhex (h : string) : string =
  let n = String.length h / 2 in
  String.init n (fun i -> Char.chr (int_of_string ("0x" ^ String.sub h (2 * i) 2)))

let upper s = String.uppercase_ascii s

let () =
  try
    while true do
      let line = input_line stdin in
      if String.length line >= 2 && line.[0] = 'P' then begin
        match String.split_on_char ';' (String.sub line 2 (String.length line - 2)) with
        | hex :: kws :: combos :: _ ->
          let data = unhex (String.trim hex) in
          let kwl = Stdlib.List.map upper (split_ws kws) in
          let cl = Stdlib.List.map (fun c -> Stdlib.List.sort compare (Stdlib.List.map upper (String.split_on_char '+' c))) (split_ws combos) in
          let creatable kw = Stdlib.List.mem (upper (string_of_bytes kw)) kwl in
          let legal names =
            let ns = Stdlib.List.sort compare (Stdlib.List.map (fun n -> upper (string_of_bytes n)) names) in
            if Stdlib.List.mem ns cl then Some true else None in
          let (made, st) = P21Pass1.read_data1 creatable legal (bytes_of_string data) in
          Stdlib.List.iter (fun c ->
              match c with
              | P21Pass1.CSimple (id, kw) -> Printf.printf "C %s %s\n" (string_of_z id) (string_of_bytes kw)
              | P21Pass1.CComplex (id, names) ->
                Printf.printf "X %s %s\n" (string_of_z id) (String.concat "+" (Stdlib.List.map string_of_bytes names))) made;
          Printf.printf "END %s\n" (match st with P21Pass1.Done -> "Done" | P21Pass1.Bad -> "Bad" | P21Pass1.Unmodelled -> "Unmodelled")
        | _ -> print_endline "END ?"
      end
    done
  with End_of_file -> ()
