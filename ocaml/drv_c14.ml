(* Runs coq/Append.v (extracted).
   K <maxid>                         -> incr
   APP <pop> | <pop> [| <pop>]      -> ids and references of every instance after the appends
   pop  = inst*      inst = <id> { part* }     part = KW ( params )
   params use the tokens  $ * i<z> r s b e #<n> t<KW> ( ) ,   and are parsed with the
   extracted (proved) parse_param *)
open Conv
open P21Syntax
open Append

open Pparse

let rec insts (ws : string list) (acc : pinst list) : pinst list * string list =
  match ws with
  | [] -> (Stdlib.List.rev acc, [])
  | "|" :: r -> (Stdlib.List.rev acc, r)
  | id :: "{" :: r ->
    let (ps, rest) = parts r [] in
    insts rest ({ p_id = z_of_string id; p_body = ps } :: acc)
  | w :: _ -> failwith ("bad instance at " ^ w)

let () =
  try
    while true do
      let line = input_line stdin in
      match split_ws line with
      | "K" :: m :: _ -> Printf.printf "K %s\n" (string_of_z (incr (z_of_string m)))
      | "APP" :: rest ->
        let rec pops ws acc = if ws = [] then Stdlib.List.rev acc else let (p, r) = insts ws [] in pops r (p :: acc) in
        (match pops rest [] with
         | [] -> print_endline "APP"
         | a :: bs ->
           let final = Stdlib.List.fold_left append_pop a bs in
           let b = Buffer.create 256 in
           Buffer.add_string b "APP";
           Stdlib.List.iter (fun i ->
               Buffer.add_string b (Printf.sprintf " %s:" (string_of_z i.p_id));
               Buffer.add_string b (String.concat "," (Stdlib.List.map string_of_z (inst_refs i)))) final;
           print_endline (Buffer.contents b))
      | _ -> ()
    done
  with End_of_file -> ()
