(* Runs coq/ExpPP.v (extracted).  One expression per line in prefix form:
     A<name> | B<op id>(<e>;<e>) | U<op id>(<e>)
   -> the tokens print_top produces: atoms by name, operators as op<id>, ( and )
   "F <expr>"   -> the flattened tree (ExpPP.flat) in a canonical spelling
   "R <tokens>" -> the tree ExpParse.parse reads from a token list (a:<name> op<id> un<id> ( )),
                   same spelling, or NONE
   "S <hex> <hex>,<hex>,..." -> OK when ExpStr.explained accepts the literal bodies (second field, as printed
                   between the quotes) as a way exppp may print the string value (first field), else NO *)
open Conv
open ExpPP

let parse (s : string) : expr =
  let pos = ref 0 in
  let n = String.length s in
  let rec go () =
    let c = s.[!pos] in
    incr pos;
    if c = 'A' then begin
      let st = !pos in
      while !pos < n && s.[!pos] <> ';' && s.[!pos] <> ')' do incr pos done;
      Atom (bytes_of_string (String.sub s st (!pos - st)))
    end else begin
      let st = !pos in
      while s.[!pos] <> '(' do incr pos done;
      let o = n_of_int (int_of_string (String.sub s st (!pos - st))) in
      incr pos;
      if c = 'U' then begin
        let x = go () in incr pos; Un (o, x)
      end else begin
        let l = go () in incr pos;
        let r = go () in incr pos;
        Bin (o, l, r)
      end
    end in
  go ()

let rec show_ct (t : ct) : string =
  match t with
  | CA a -> String.lowercase_ascii (string_of_bytes a)
  | CU (o, x) -> "u" ^ string_of_int (int_of_n o) ^ "(" ^ show_ct x ^ ")"
  | CB (o, l, r) -> "b" ^ string_of_int (int_of_n o) ^ "(" ^ show_ct l ^ ";" ^ show_ct r ^ ")"
  | CC (o, xs) -> "c" ^ string_of_int (int_of_n o) ^ "(" ^ String.concat ";" (Stdlib.List.map show_ct xs) ^ ")"

let tok_of_string (w : string) : tok =
  let n = String.length w in
  if w = "(" then TLP else if w = ")" then TRP
  else if n > 2 && String.sub w 0 2 = "a:" then TAtom (bytes_of_string (String.sub w 2 (n - 2)))
  else if n > 2 && String.sub w 0 2 = "op" then TOp (n_of_int (int_of_string (String.sub w 2 (n - 2))))
  else if n > 2 && String.sub w 0 2 = "un" then TUn (n_of_int (int_of_string (String.sub w 2 (n - 2))))
  else failwith ("bad token " ^ w)

let str_of_hex (h : string) : ExpStr.str =
  let n = String.length h / 2 in
  Stdlib.List.init n (fun i -> n_of_int (int_of_string ("0x" ^ String.sub h (2 * i) 2)))

let () =
  try
    while true do
      let line = String.trim (input_line stdin) in
      if line <> "" then begin
        (* "W <expr>": inside a WHERE clause with labels exppp calls EXPR_out( expr, max_indent ): paren is on *)
        if String.length line > 2 && line.[0] = 'F' && line.[1] = ' ' then
          print_string (show_ct (flat (parse (String.sub line 2 (String.length line - 2)))) ^ "\n")
        else if String.length line > 2 && line.[0] = 'R' && line.[1] = ' ' then begin
          let ws = Stdlib.List.filter (fun w -> w <> "") (String.split_on_char ' ' (String.sub line 2 (String.length line - 2))) in
          match ExpParse.parse (Stdlib.List.map tok_of_string ws) with
          | Some t -> print_string (show_ct t ^ "\n")
          | None -> print_string "NONE\n"
        end else if String.length line > 2 && line.[0] = 'S' && line.[1] = ' ' then begin
          match String.split_on_char ' ' (String.sub line 2 (String.length line - 2)) with
          | [v; lits] ->
            let ls = Stdlib.List.map (fun h -> str_of_hex (if h = "-" then "" else h)) (String.split_on_char ',' lits) in
            print_string (if ExpStr.explained (str_of_hex (if v = "-" then "" else v)) ls then "OK\n" else "NO\n")
          | _ -> print_string "NO\n"
        end else
        let wctx = String.length line > 2 && line.[0] = 'W' && line.[1] = ' ' in
        let line = if wctx then String.sub line 2 (String.length line - 2) else line in
        let e = parse line in
        let toks = if wctx then print e true PPRule.coq_OP_UNKNOWN else print_top e in
        print_string (String.concat " " (Stdlib.List.map (fun t -> match t with
            | TAtom a -> String.lowercase_ascii (string_of_bytes a)
            | TOp o -> "op" ^ string_of_int (int_of_n o)
            | TUn o -> "un" ^ string_of_int (int_of_n o)
            | TLP -> "(" | TRP -> ")") toks) ^ "\n")
      end
    done
  with End_of_file -> ()
