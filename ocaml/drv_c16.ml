(* Runs coq/WorkSession.v (extracted).
   WS <state><id> { parts } ...     state digit: 1 complete 2 incomplete 3 delete 4 new
   -> SAVE letters ; LOAD state:id:refs ... ; SAVE2 letters *)
open Conv
open Pparse
open P21Syntax
open Append
open WorkSession
open WorkSessionDefs

let st_of = function '1' -> WComplete | '2' -> WIncomplete | '3' -> WDelete | '4' -> WNew | _ -> WNoState
let st_int = function WNoState -> 0 | WComplete -> 1 | WIncomplete -> 2 | WDelete -> 3 | WNew -> 4

let rec nodes (ws : string list) (acc : wnode list) : wnode list =
  match ws with
  | [] -> Stdlib.List.rev acc
  | sid :: "{" :: r ->
    let (ps, rest) = parts r [] in
    let st = st_of sid.[0] in
    let id = z_of_string (String.sub sid 1 (String.length sid - 1)) in
    nodes rest ({ w_state = st; w_inst = { p_id = id; p_body = ps } } :: acc)
  | w :: _ -> failwith ("bad node at " ^ w)

let letters f = String.concat "" (Stdlib.List.map (fun (c, _) -> String.make 1 (Char.chr (int_of_n c))) f)

let () =
  try
    while true do
      let line = input_line stdin in
      match split_ws line with
      | "WS" :: rest ->
        let s = nodes rest [] in
        let f1 = save s in
        let l1 = load f1 in
        let f2 = save l1 in
        let b = Buffer.create 256 in
        Buffer.add_string b ("SAVE " ^ letters f1 ^ " LOAD");
        Stdlib.List.iter (fun n ->
            Buffer.add_string b (Printf.sprintf " %d:%s:%s" (st_int n.w_state) (string_of_z n.w_inst.p_id)
                                   (String.concat "," (Stdlib.List.map string_of_z (inst_refs n.w_inst))))) l1;
        Buffer.add_string b (" SAVE2 " ^ letters f2);
        print_endline (Buffer.contents b)
      | _ -> ()
    done
  with End_of_file -> ()
