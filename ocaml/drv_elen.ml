(* Runs coq/ExprBuf.v (extracted) on the shapes harness/h_exprlen prints.
   E <actual> <shape>   ->  E <actual> <written> <bound> <wf> <buffer_size> <bytes_stored>
   shape := N<len> | B<len> | S<len>q<0|1> | U | Q<len>(shape shape) | F<len>(shape ...)
          | G(shape) | O<0|1>(shape [shape]) | A(r<0|1> shape ...) | L(shape ...) *)
open Conv
open ExprBuf

let parse (s : string) : ex =
  let n = String.length s in
  let pos = ref 0 in
  let peek () = if !pos < n then s.[!pos] else '\000' in
  let adv () = incr pos in
  let skip () = while peek () = ' ' do adv () done in
  let num () =
    let st = !pos in
    while peek () >= '0' && peek () <= '9' do adv () done;
    if st = !pos then failwith "number expected";
    int_of_string (String.sub s st (!pos - st)) in
  let expect c = if peek () <> c then failwith (Printf.sprintf "'%c' expected at %d" c !pos); adv () in
  let rec shape () : ex =
    skip ();
    match peek () with
    | 'N' -> adv (); XNum (nat_of_int (num ()))
    | 'B' -> adv (); XBinary (nat_of_int (num ()))
    | 'S' -> adv (); let l = num () in expect 'q'; let q = num () in XName (nat_of_int l, q = 1)
    | 'U' -> adv (); XUnknown
    | 'Q' -> adv (); let l = num () in expect '('; let a = shape () in let b = shape () in skip (); expect ')'; XQuery (nat_of_int l, a, b)
    | 'F' -> adv (); let l = num () in expect '('; let args = many () in XFuncall (nat_of_int l, args)
    | 'G' -> adv (); expect '('; let a = shape () in skip (); expect ')'; XNegate a
    | 'O' -> adv (); let k = num () in expect '('; let a = shape () in skip ();
      if peek () = ')' then (adv (); XOp (k = 1, a, None)) else (let b = shape () in skip (); expect ')'; XOp (k = 1, a, Some b))
    | 'A' -> adv (); expect '(';
      let rec go acc = skip (); if peek () = ')' then (adv (); Stdlib.List.rev acc)
        else (expect 'r'; let r = num () in let e = shape () in go ((r = 1, e) :: acc)) in
      XAggregate (go [])
    | 'L' -> adv (); expect '('; XOneof (many ())
    | c -> failwith (Printf.sprintf "unexpected '%c' at %d" c !pos)
  and many () : ex list =
    let rec go acc = skip (); if peek () = ')' then (adv (); Stdlib.List.rev acc) else go (shape () :: acc) in
    go [] in
  let e = shape () in
  skip ();
  if !pos <> n then failwith "trailing text";
  e

let () =
  try
    while true do
      let line = input_line stdin in
      match String.index_opt line ' ' with
      | Some i when String.length line > 2 && line.[0] = 'E' ->
        let rest = String.sub line (i + 1) (String.length line - i - 1) in
        (match String.index_opt rest ' ' with
         | Some j ->
           let actual = String.sub rest 0 j in
           let sh = String.sub rest (j + 1) (String.length rest - j - 1) in
           (try
              let e = parse sh in
              Printf.printf "E %s %d %d %d %d %d\n" actual (int_of_nat (written e)) (int_of_nat (bound e)) (if wf e then 1 else 0)
                (int_of_nat (buffer_size e)) (int_of_nat (bytes_stored e))
            with Failure m -> Printf.printf "E %s ? %s\n" actual m)
         | None -> print_endline "E ?")
      | _ -> print_endline line
    done
  with End_of_file -> ()
