(* Runs coq/PyGen.v (extracted).
   one line per schema: entities  id:sup,sup:KINDS   (KINDS = string of E/D/I, one per own attribute; '-' for none)
   -> for each entity   id|bases|gen_ctor|p21_ctor   (attributes as owner.index), separated by " ; " *)
open Conv
open PyGen
open CxxAttrs

let () =
  try
    while true do
      let line = input_line stdin in
      let ents = Stdlib.List.map (fun tok ->
          match String.split_on_char ':' tok with
          | [i; sups; kinds] ->
            let id = n_of_int (int_of_string i) in
            let sl = if sups = "" then [] else Stdlib.List.map (fun s -> n_of_int (int_of_string s)) (String.split_on_char ',' sups) in
            let ks = if kinds = "-" then [] else Stdlib.List.init (String.length kinds) (fun j ->
                { a_owner = id; a_index = n_of_int j;
                  a_kind = (match kinds.[j] with 'E' -> Explicit | 'D' -> Derived | _ -> Inverse) }) in
            { e_id = id; e_supers = sl; e_attrs = ks }
          | _ -> failwith ("bad entity " ^ tok)) (split_ws line) in
      let fuel = nat_of_int (Stdlib.List.length ents + 1) in
      let show_attrs l = String.concat "," (Stdlib.List.map (fun a -> string_of_int (int_of_n a.a_owner) ^ "." ^ string_of_int (int_of_n a.a_index)) l) in
      let show_ids l = String.concat "," (Stdlib.List.map (fun i -> string_of_int (int_of_n i)) l) in
      print_string (String.concat " ; " (Stdlib.List.map (fun e ->
          string_of_int (int_of_n e.e_id) ^ "|" ^ show_ids (gen_bases ents e) ^ "|" ^ show_attrs (gen_ctor fuel ents e) ^ "|" ^ show_attrs (p21_ctor fuel ents e) ^ "|" ^ show_attrs (cxx_order fuel ents e)) ents) ^ "\n")
    done
  with End_of_file -> ()
