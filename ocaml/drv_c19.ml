(* Runs coq/PyAggr.v (extracted) on the sequences of harness/py_aggr_driver.py *)
open Conv
open PyAggr

let show_rv = function
  | RNone -> "None"
  | RVal (VInt z) -> "int:" ^ string_of_z z
  | RVal (VStr _) -> "str"
  | RInt z -> "int:" ^ string_of_z z
  | RB BTrue -> "True" | RB BFalse -> "False" | RB BUnknown -> "Unknown"
let show_exn = function IndexError -> "IndexError" | TypeError -> "TypeError" | AssertionError -> "AssertionError"
let value t = if t = "s" then VStr (z_of_int 0) else VInt (z_of_string t)
let split c s = String.split_on_char c s

let () =
  try
    while true do
      let line = input_line stdin in
      let toks = split_ws line in
      let obj = ref None in
      let out = Stdlib.List.map (fun t ->
          let c = t.[0] in
          let rest = String.sub t 1 (String.length t - 1) in
          if c = 'N' then begin
            match split ':' rest with
            | [k; b1; b2; u; o] ->
              let kind = (match k with "A" -> KArray | "L" -> KList | "B" -> KBag | _ -> KSet) in
              let b2' = if b2 = "n" then None else Some (z_of_string b2) in
              (match new_agg kind (z_of_string b1) b2' (u = "1") (o = "1") with
               | Datatypes.Coq_inl a -> obj := Some a; "ok:None"
               | Datatypes.Coq_inr e -> obj := None; "raise:" ^ show_exn e)
            | _ -> "skip"
          end else
            match !obj with
            | None -> "skip"
            | Some a ->
              let o = (match c with
                  | 'S' -> (match split ':' rest with [i; v] -> Some (OSet (z_of_string i, value v)) | _ -> None)
                  | 'G' -> Some (OGet (z_of_string rest))
                  | 'A' -> Some (OAdd (value rest))
                  | 'Q' -> (match rest with "s" -> Some QSize | "h" -> Some QHiIndex | "l" -> Some QLoIndex
                                         | "H" -> Some QHiBound | "L" -> Some QLoBound | "u" -> Some QUnique | _ -> None)
                  | _ -> None) in
              (match o with
               | None -> "skip"
               | Some o ->
                 let (a', r) = step a o in
                 obj := Some a';
                 (match r with Ok x -> "ok:" ^ show_rv x | Raise e -> "raise:" ^ show_exn e))) toks in
      print_endline (String.concat " | " out)
    done
  with End_of_file -> ()
