(* int <-> extracted Coq numbers; shared by all drivers *)
open BinNums
open Datatypes

let rec pos_of_int (n : int) : positive =
  if n <= 1 then Coq_xH
  else if n land 1 = 0 then Coq_xO (pos_of_int (n lsr 1))
  else Coq_xI (pos_of_int (n lsr 1))
let rec int_of_pos (p : positive) : int =
  match p with Coq_xH -> 1 | Coq_xO q -> 2 * int_of_pos q | Coq_xI q -> 2 * int_of_pos q + 1
let z_of_int (n : int) : coq_Z =
  if n = 0 then Z0 else if n > 0 then Zpos (pos_of_int n) else Zneg (pos_of_int (-n))
let int_of_z (z : coq_Z) : int =
  match z with Z0 -> 0 | Zpos p -> int_of_pos p | Zneg p -> - (int_of_pos p)
let n_of_int (n : int) : coq_N = if n = 0 then N0 else Npos (pos_of_int n)
let int_of_n (n : coq_N) : int = match n with N0 -> 0 | Npos p -> int_of_pos p
let rec nat_of_int (n : int) : nat = if n <= 0 then O else S (nat_of_int (n - 1))
let rec int_of_nat (n : nat) : int = match n with O -> 0 | S m -> 1 + int_of_nat m

(* decimal strings of arbitrary size <-> Z, without using extracted arithmetic
   (Separate Extraction only emits what the models use) *)
let z_of_string (s : string) : coq_Z =
  let neg = String.length s > 0 && s.[0] = '-' in
  let start = if neg || (String.length s > 0 && s.[0] = '+') then 1 else 0 in
  let digits = ref (Stdlib.List.init (String.length s - start) (fun i -> Char.code s.[start + i] - 48)) in
  (* repeated division by two of the decimal digit list, least significant bit first *)
  let bits = ref [] in
  let is_zero l = Stdlib.List.for_all (fun d -> d = 0) l in
  while not (is_zero !digits) do
    let carry = ref 0 in
    let q = Stdlib.List.map (fun d -> let v = !carry * 10 + d in carry := v land 1; v / 2) !digits in
    bits := !carry :: !bits;     (* most significant bit ends up first *)
    digits := q
  done;
  match !bits with
  | [] -> Z0
  | _ :: rest ->
    let p = Stdlib.List.fold_left (fun acc b -> if b = 1 then Coq_xI acc else Coq_xO acc) Coq_xH rest in
    if neg then Zneg p else Zpos p
let string_of_z (z : coq_Z) : string =
  (* via repeated doubling of a decimal digit list *)
  let rec bits p = match p with Coq_xH -> [1] | Coq_xO q -> bits q @ [0] | Coq_xI q -> bits q @ [1] in
  let dbl_add l b =
    let carry = ref b in
    let r = Stdlib.List.rev_map (fun d -> let v = 2 * d + !carry in carry := v / 10; v mod 10) (Stdlib.List.rev l) in
    if !carry > 0 then !carry :: r else r in
  let to_s p = let l = Stdlib.List.fold_left dbl_add [0] (bits p) in
    String.concat "" (Stdlib.List.map string_of_int l) in
  match z with Z0 -> "0" | Zpos p -> to_s p | Zneg p -> "-" ^ to_s p

let bytes_of_string (s : string) : coq_N list =
  Stdlib.List.init (String.length s) (fun i -> n_of_int (Char.code s.[i]))
let string_of_bytes (l : coq_N list) : string =
  String.concat "" (Stdlib.List.map (fun b -> String.make 1 (Char.chr ((int_of_n b) land 255))) l)

let split_ws (s : string) : string list =
  Stdlib.List.filter (fun x -> x <> "") (String.split_on_char ' ' s)
