(* Runs coq/GenFiles.v (extracted).
   one line per schema:  <schema> ; E <name> ; T <name> <kind id> <head 0/1> <aggr_ref 0/1> ; ...
   -> SCAN f1 f2 ... | GEN f1 f2 ...   (each list sorted) *)
open Conv
open GenFiles
open ScannerRule

let kind_of_id (i : int) : kind =
  match Stdlib.List.filter (fun k -> int_of_n (kind_id k) = i) all_kinds with
  | k :: _ -> k | [] -> failwith "bad kind id"

let () =
  try
    while true do
      let line = input_line stdin in
      match Stdlib.List.map String.trim (String.split_on_char ';' line) with
      | schema :: rest ->
        let ds = Stdlib.List.filter_map (fun item ->
            match split_ws item with
            | ["E"; n] -> Some (DEnt (bytes_of_string n))
            | ["T"; n; k; h; a] -> Some (DType (bytes_of_string n, kind_of_id (int_of_string k), h = "1", a = "1"))
            | [] -> None
            | _ -> failwith ("bad item " ^ item)) rest in
        let sn = bytes_of_string schema in
        let show l = String.concat " " (Stdlib.List.sort compare (Stdlib.List.map string_of_bytes l)) in
        print_string ("SCAN " ^ show (scanner_files sn ds) ^ " | GEN " ^ show (gen_files sn ds) ^ "\n")
      | [] -> ()
    done
  with End_of_file -> ()
