#!/bin/bash
# Extract the Coq models and build the OCaml drivers.  cwd-independent.
set -e
here="$(cd "$(dirname "$0")" && pwd)"
cd "$here"
mkdir -p gen bin
rm -f gen/*.ml gen/*.mli gen/*.cm* gen/*.o
( cd gen && coqc -Q ../../coq SC ../../coq/Extract.v >/dev/null )
rm -f ../coq/Extract.vo ../coq/Extract.glob ../coq/.Extract.aux ../coq/Extract.vos ../coq/Extract.vok
files=$(cd gen && ocamlfind ocamldep -sort *.ml *.mli)
srcs=""
for f in $files; do srcs="$srcs gen/$f"; done
ocamlfind ocamlopt -w -a -I gen -c $srcs conv.ml pparse.ml
objs=""
for f in $files; do case $f in *.ml) objs="$objs gen/${f%.ml}.cmx";; esac; done
for d in drv_*.ml; do
  ocamlfind ocamlopt -w -a -I gen $objs conv.cmx pparse.cmx $d -o bin/${d%.ml}
done
